import AlphaG.Lemmas.DeconvField
/-
Facts about the deconvolution model (`Model/Deconv.lean`).
Without any law of the carrier: the production loop equals the plain one (`fast_eq_naive*`,
sections 1-2), the shapes of all results (`deconv_shape_*`, `ls_nonempty`, `yMatrix_padding`,
section 3), the sweep as a pure `argminLoop` (`lsLoop_eq_argminLoop`, section 4).
Over a linearly ordered field (`fieldOps top`): the first strict minimum wins
(`ls_first_strict_min`, section 4), the reconstructed input is non-negative (`deconv_nonneg*`,
section 5). Section 6: non-vacuity examples over `Rat`.
-/
namespace AlphaG.Deconv

variable {α : Type} (o : Ops α)

/-! ### 1. `fast = naive` (no law of `α`) -/

theorem lastNonneg_none_iff (w : List α) : lastNonneg o w = none ↔ w.any o.nonneg = false := by
  unfold lastNonneg
  cases h : w.reverse.findIdx? o.nonneg with
  | none => simp [List.findIdx?_eq_none_iff] at h ⊢; exact h
  | some k =>
    simp
    have := List.findIdx?_eq_some_iff_getElem.mp h
    obtain ⟨hk, hp, _⟩ := this
    refine ⟨w.reverse[k], ?_, hp⟩
    exact List.mem_reverse.mp (List.getElem_mem hk)

theorem lastNonneg_some (w : List α) (k : Nat) (h : lastNonneg o w = some k) :
    ∃ hk : k < w.length, o.nonneg w[k] = true := by
  unfold lastNonneg at h
  cases h' : w.reverse.findIdx? o.nonneg with
  | none => simp [h'] at h
  | some j =>
    simp [h'] at h
    obtain ⟨hj, hp, _⟩ := List.findIdx?_eq_some_iff_getElem.mp h'
    simp at hj
    subst h
    refine ⟨by omega, ?_⟩
    rw [List.getElem_reverse] at hp
    exact hp

/-- While a non-negative sample sits at absolute position `p` inside the window, `naive` only
advances. -/
theorem naive_skip (resp : List α) (off la : Nat) (res inp : List α) (p : Nat)
    (hp : p < res.length) (hn : o.nonneg res[p] = true) :
    ∀ d i, i + off ≤ p → p < i + off + la → p + 1 = i + off + d →
      naive o resp off la i res inp = naive o resp off la (i + d) res inp := by
  intro d
  induction d with
  | zero => intros; rfl
  | succ d ih =>
    intro i h1 h2 h3
    rw [naive.eq_1 o resp off la i]
    split
    · rename_i hb
      have hany : (window res i off la).any o.nonneg = true := by
        simp only [window, List.any_eq_true]
        refine ⟨res[p], ?_, hn⟩
        rw [List.mem_iff_getElem]
        refine ⟨p - (i + off), by simp; omega, ?_⟩
        simp [List.getElem_take, List.getElem_drop]
        congr 1; omega
      simp only [hany, if_true]
      by_cases hd : d = 0
      · subst hd; rfl
      · rw [ih (i + 1) (by omega) (by omega) (by omega)]
        congr 1; omega
    · rename_i hb
      rw [naive.eq_1 o resp off la (i + (d + 1))]
      simp only [dif_neg (show ¬ (i + (d + 1) + off + la ≤ res.length) by omega)]

theorem fast_eq_naive_loop (o : Ops α) (resp : List α) (off la i : Nat) (res inp : List α) :
    fast o resp off la i res inp = naive o resp off la i res inp := by
  fun_induction fast o resp off la i res inp with
  | case1 i res inp hb k hk ih =>
    rw [ih]
    obtain ⟨hkl, hnn⟩ := lastNonneg_some o _ k hk
    have hwl : (window res i off la).length = la := by simp [window]; omega
    have hp : i + off + k < res.length := by omega
    have : o.nonneg res[i + off + k] = true := by
      have : (window res i off la)[k] = res[i + off + k] := by
        simp [window, List.getElem_take, List.getElem_drop]
      rw [← this]; exact hnn
    have := naive_skip o resp off la res inp (i + off + k) hp this (k + 1) i
      (by omega) (by omega) (by omega)
    rw [this, Nat.add_assoc]
  | case2 i res inp hb hnone ih =>
    rw [ih]
    conv => rhs; rw [naive.eq_1]
    have hany : (window res i off la).any o.nonneg = false :=
      (lastNonneg_none_iff o _).mp hnone
    simp only [dif_pos hb]
    simp [hany]
  | case3 i res inp hb =>
    rw [naive.eq_1]; simp [hb]

/-! ### 2. The three entry points -/

theorem loopResult_fast_eq_naive (signal resp : List α) (off la : Nat) :
    loopResult o true signal resp off la = loopResult o false signal resp off la := by
  simp [loopResult, fast_eq_naive_loop]

theorem nnGreedy_fast_eq_naive (signal resp : List α) (off la : Nat) :
    nnGreedy o true signal resp off la = nnGreedy o false signal resp off la := by
  simp only [nnGreedy, loopResult_fast_eq_naive]

/-- Residual vector, residual sum, reconstructed input and every panic are the same. -/
theorem fast_eq_naive (o : Ops α) (signal resp : List α) (off la : Nat) :
    nnGreedyFast o signal resp off la = nnGreedyNaive o signal resp off la :=
  nnGreedy_fast_eq_naive o signal resp off la

theorem nnGreedy_bool (b : Bool) (signal resp : List α) (off la : Nat) :
    nnGreedy o b signal resp off la = nnGreedy o false signal resp off la := by
  cases b
  · rfl
  · exact nnGreedy_fast_eq_naive o signal resp off la

theorem lsLoop_fast_eq_naive (signal resp : List α) (g : List (Nat × Nat)) (r : α)
    (best : List α) :
    lsLoop o true signal resp g r best = lsLoop o false signal resp g r best := by
  induction g generalizing r best with
  | nil => rfl
  | cons p rest ih =>
    obtain ⟨off, la⟩ := p
    simp only [lsLoop, nnGreedy_fast_eq_naive, ih]

theorem ls_fast_eq_naive (o : Ops α) (signal resp : List α) (offLo offHi laLo laHi : Nat) :
    lsDeconvWith o true signal resp offLo offHi laLo laHi
      = lsDeconvWith o false signal resp offLo offHi laLo laHi :=
  lsLoop_fast_eq_naive o signal resp _ _ _

/-! ### 3. Shapes -/

theorem naive_length (resp : List α) (off la i : Nat) (res inp : List α) :
    (naive o resp off la i res inp).1.length = res.length
      ∧ (naive o resp off la i res inp).2.length = inp.length := by
  fun_induction naive o resp off la i res inp with
  | case1 i res inp hb hany ih => exact ih
  | case2 i res inp hb hany ih =>
    simpa only [applyAt_length, List.length_set] using ih
  | case3 i res inp hb => exact ⟨rfl, rfl⟩

theorem loopResult_length (b : Bool) (signal resp : List α) (off la : Nat) :
    (loopResult o b signal resp off la).1.length = signal.length
      ∧ (loopResult o b signal resp off la).2.length = signal.length := by
  have hn := naive_length o resp off la 0 signal (List.replicate signal.length o.zero)
  rw [List.length_replicate] at hn
  cases b
  · exact hn
  · rw [loopResult_fast_eq_naive]
    exact hn

/-- What `nnGreedy … = .ok _` says: the four guards passed and the triple is the loop result. -/
theorem nnGreedy_eq_ok_iff (b : Bool) (signal resp : List α) (off la : Nat)
    (t : List α × α × List α) :
    nnGreedy o b signal resp off la = .ok t ↔
      (off ≤ resp.length ∧ la ≤ resp.length - off
        ∧ (respWindow resp off la).all o.isNeg = true ∧ ¬ (la = 0 ∧ off ≤ signal.length))
      ∧ t = ((loopResult o b signal resp off la).1,
             sumSq o (loopResult o b signal resp off la).1,
             (loopResult o b signal resp off la).2) := by
  unfold nnGreedy
  by_cases h1 : resp.length < off
  · simp only [h1, if_true]; constructor
    · intro h; cases h
    · intro h; omega
  simp only [h1, if_false]
  by_cases h2 : resp.length - off < la
  · simp only [h2, if_true]; constructor
    · intro h; cases h
    · intro h; omega
  simp only [h2, if_false]
  by_cases h3 : (respWindow resp off la).all o.isNeg = true
  · simp only [h3, not_true, if_false]
    by_cases h4 : la = 0 ∧ off ≤ signal.length
    · simp only [h4, and_self, if_true]; constructor
      · intro h; cases h
      · intro h; exact absurd trivial h.1.2.2.2
    · simp only [h4, if_false]
      constructor
      · intro h; injection h with h; exact ⟨⟨by omega, by omega, trivial, not_false⟩, h.symm⟩
      · intro h; rw [h.2]
  · rw [if_pos h3]; constructor
    · intro h; cases h
    · intro h; exact absurd h.1.2.2.1 h3

theorem deconv_shape_nn (o : Ops α) (b : Bool) (signal resp : List α) (off la : Nat)
    (res : List α) (sum : α) (inp : List α)
    (h : nnGreedy o b signal resp off la = .ok (res, sum, inp)) :
    res.length = signal.length ∧ inp.length = signal.length := by
  have h := ((nnGreedy_eq_ok_iff o b signal resp off la _).mp h).2
  injection h with h1 h2
  injection h2 with h2 h3
  subst h1 h3
  exact loopResult_length o b signal resp off la

/-- Invariant of the sweep for any predicate on inputs that every ok run satisfies. -/
theorem lsLoop_invariant (P : List α → Prop) (b : Bool) (signal resp : List α)
    (hP : ∀ off la res r inp, nnGreedy o b signal resp off la = .ok (res, r, inp) → P inp)
    (g : List (Nat × Nat)) (bestR : α) (best out : List α) (hbest : P best)
    (h : lsLoop o b signal resp g bestR best = .ok out) : P out := by
  induction g generalizing bestR best with
  | nil => simp only [lsLoop] at h; injection h with h; exact h ▸ hbest
  | cons p rest ih =>
    obtain ⟨off, la⟩ := p
    simp only [lsLoop] at h
    split at h
    · rename_i res r inp hrun
      split at h
      · exact ih r inp (hP off la res r inp hrun) h
      · exact ih bestR best hbest h
    · cases h
    · cases h

theorem deconv_shape_ls (o : Ops α) (b : Bool) (signal resp : List α)
    (offLo offHi laLo laHi : Nat) (inp : List α)
    (h : lsDeconvWith o b signal resp offLo offHi laLo laHi = .ok inp) :
    inp = [] ∨ inp.length = signal.length :=
  lsLoop_invariant o (fun l => l = [] ∨ l.length = signal.length) b signal resp
    (fun off la res r i0 hrun => .inr (deconv_shape_nn o b signal resp off la res r i0 hrun).2)
    _ _ _ _ (.inl rfl) h

theorem grid_cons (offLo offHi laLo laHi : Nat) (hoff : offLo ≤ offHi) (hla : laLo ≤ laHi) :
    ∃ rest, grid offLo offHi laLo laHi = (offLo, laLo) :: rest := by
  unfold grid
  have e1 : offHi + 1 - offLo = (offHi - offLo) + 1 := by omega
  have e2 : laHi + 1 - laLo = (laHi - laLo) + 1 := by omega
  rw [e1, e2, List.range'_succ (s := offLo), List.flatMap_cons, List.range'_succ (s := laLo),
    List.map_cons, List.cons_append]
  exact ⟨_, rfl⟩

/-- When the first grid point is accepted (its residual sum is `< +∞`) the sweep returns a
vector of the signal's length. In `f64` a NaN residual sum is never `<` anything, so a sweep whose
runs all give NaN (or `+∞`) returns the initial empty vector; such signals are outside the
quantifier of the property, which is why the hypothesis `o.lt r o.inf = true` is needed. -/
theorem ls_nonempty (o : Ops α) (b : Bool) (signal resp : List α)
    (offLo offHi laLo laHi : Nat) (res : List α) (r : α) (i0 inp : List α)
    (hoff : offLo ≤ offHi) (hla : laLo ≤ laHi)
    (h0 : nnGreedy o b signal resp offLo laLo = .ok (res, r, i0))
    (hr : o.lt r o.inf = true)
    (h : lsDeconvWith o b signal resp offLo offHi laLo laHi = .ok inp) :
    inp.length = signal.length := by
  obtain ⟨rest, hg⟩ := grid_cons offLo offHi laLo laHi hoff hla
  unfold lsDeconvWith at h
  rw [hg] at h
  simp only [lsLoop, h0, hr, if_true] at h
  exact lsLoop_invariant o (fun l => l.length = signal.length) b signal resp
    (fun off la res r i0 hrun => (deconv_shape_nn o b signal resp off la res r i0 hrun).2)
    _ _ _ _ (deconv_shape_nn o b signal resp _ _ res r i0 h0).2 h

theorem sequence_eq_ok {ε β : Type} (l : List (Outcome ε β)) (out : List β)
    (h : sequence l = .ok out) : l = out.map .ok := by
  induction l generalizing out with
  | nil => simp only [sequence] at h; injection h with h; subst h; rfl
  | cons x xs ih =>
    cases x with
    | ok a =>
      simp only [sequence] at h
      split at h
      · rename_i as has
        injection h with h; subst h
        rw [ih as has]; rfl
      · cases h
      · cases h
    | err e => simp only [sequence] at h; cases h
    | panic s => simp only [sequence] at h; cases h

theorem wireSignalsDeconv_shape
    (cholSolve : Nat → Nat → (Nat → Nat → α) → (Nat → Nat → α))
    (wireResp : List α) (signals : List (List α)) (sol : List (List α))
    (h : wireSignalsDeconv o cholSolve wireResp signals = .ok sol) :
    sol.length = signals.length ∧ ∀ s ∈ sol, s = [] ∨ s.length = maxLen signals := by
  unfold wireSignalsDeconv at h
  split at h
  · cases h
  · have hs := sequence_eq_ok _ _ h
    have hlen : sol.length = signals.length := by
      have := congrArg List.length hs
      simpa using this.symm
    refine ⟨hlen, ?_⟩
    intro s hs'
    obtain ⟨k, hk, rfl⟩ := List.mem_iff_getElem.mp hs'
    have hk' : k < signals.length := by omega
    have := congrArg (fun l => l[k]?) hs
    simp only [List.getElem?_map, List.getElem?_range hk', List.getElem?_eq_getElem hk,
      Option.map_some] at this
    injection this with this
    have := deconv_shape_ls o true _ wireResp 0 1 3 12 sol[k] this
    simpa using this

theorem deconv_shape_wires (o : Ops α)
    (cholSolve : Nat → Nat → (Nat → Nat → α) → (Nat → Nat → α))
    (wireResp : List α) (block : List (Nat × List α)) (out : List (Nat × List α))
    (h : wireRangeDeconv o cholSolve wireResp block = .ok out) :
    out.length = block.length ∧ out.map Prod.fst = block.map Prod.fst
      ∧ ∀ p ∈ out, p.2 = [] ∨ p.2.length = maxLen (block.map Prod.snd) := by
  unfold wireRangeDeconv at h
  split at h
  · rename_i sol hsol
    injection h with h; subst h
    obtain ⟨hlen, hall⟩ := wireSignalsDeconv_shape o cholSolve wireResp _ sol hsol
    simp only [List.length_map] at hlen
    refine ⟨by simp [hlen], List.map_fst_zip (by simp [hlen]), ?_⟩
    intro p hp
    obtain ⟨a, s⟩ := p
    exact hall s (List.of_mem_zip hp).2
  · cases h
  · cases h

/-- `Y` is zero beyond the end of a short channel … -/
theorem yMatrix_padding (o : Ops α) (signals : List (List α)) (row column : Nat)
    (h : (signals.getD column []).length ≤ row) :
    yMatrix o signals row column = o.zero := by
  unfold yMatrix
  rw [List.getD_eq_getElem?_getD (l := signals.getD column []), List.getElem?_eq_none h]
  rfl

/-- … and sample `row` of channel `column` otherwise. -/
theorem yMatrix_inrange (o : Ops α) (signals : List (List α)) (row column : Nat)
    (h : row < (signals.getD column []).length) :
    yMatrix o signals row column = (signals.getD column [])[row] := by
  unfold yMatrix
  rw [List.getD_eq_getElem?_getD (l := signals.getD column []), List.getElem?_eq_getElem h]
  rfl

/-- A column outside the block is all zero as well (never used by `wireSignalsDeconv`). -/
theorem yMatrix_column_out (o : Ops α) (signals : List (List α)) (row column : Nat)
    (h : signals.length ≤ column) : yMatrix o signals row column = o.zero := by
  simp [yMatrix, List.getD_eq_getElem?_getD, List.getElem?_eq_none h]

/-! ### 4. The sweep keeps the first strict minimum -/

/-- The sweep of `ls_deconvolution` on the list of `(residual sum, input)` of the runs. -/
def argminLoop : List (α × List α) → α → List α → List α
  | [], _, best => best
  | (r, inp) :: rest, bestR, best =>
    if o.lt r bestR then argminLoop rest r inp else argminLoop rest bestR best

/-- "Every grid point's run is ok" gives the list of the runs' results. -/
theorem runs_exist {β γ : Type} (f : β → Outcome Unit γ) (g : List β)
    (h : ∀ p ∈ g, ∃ t, f p = .ok t) : ∃ runs : List γ, g.map f = runs.map .ok := by
  induction g with
  | nil => exact ⟨[], rfl⟩
  | cons p rest ih =>
    obtain ⟨t, ht⟩ := h p (List.mem_cons_self)
    obtain ⟨runs, hr⟩ := ih (fun q hq => h q (List.mem_cons_of_mem _ hq))
    exact ⟨t :: runs, by simp [ht, hr]⟩

/-- When all runs are ok the sweep is `argminLoop` on their `(residual sum, input)`. -/
theorem lsLoop_eq_argminLoop (b : Bool) (signal resp : List α) (g : List (Nat × Nat))
    (runs : List (List α × α × List α))
    (hruns : g.map (fun p => nnGreedy o b signal resp p.1 p.2) = runs.map .ok)
    (bestR : α) (best : List α) :
    lsLoop o b signal resp g bestR best
      = .ok (argminLoop o (runs.map fun t => (t.2.1, t.2.2)) bestR best) := by
  induction g generalizing runs bestR best with
  | nil =>
    cases runs with
    | nil => rfl
    | cons t ts => simp at hruns
  | cons p rest ih =>
    obtain ⟨off, la⟩ := p
    cases runs with
    | nil => simp at hruns
    | cons t ts =>
      obtain ⟨res, r, inp⟩ := t
      simp only [List.map_cons, List.cons.injEq] at hruns
      obtain ⟨h1, h2⟩ := hruns
      simp only [lsLoop, h1, List.map_cons, argminLoop]
      split
      · exact ih ts h2 r inp
      · exact ih ts h2 bestR best

section OrderedField
open Lean Grind Std
variable {F : Type} [Field F] [LE F] [LT F] [LawfulOrderLT F] [IsLinearOrder F] [OrderedRing F]
  [DecidableLT F] [DecidableLE F]

/-- `argminLoop` over a linear order: either nothing beats the start value, or the *first* index
of the minimum wins. -/
theorem argminLoop_spec (top : F) (l : List (F × List F)) (bestR : F) (best : List F) :
    ((∀ p ∈ l, ¬ p.1 < bestR) ∧ argminLoop (fieldOps top) l bestR best = best)
    ∨ ∃ j, ∃ hj : j < l.length, l[j].1 < bestR
        ∧ (∀ i, ∀ hi : i < l.length, l[j].1 ≤ l[i].1)
        ∧ (∀ i, ∀ hi : i < j, l[j].1 < l[i].1)
        ∧ argminLoop (fieldOps top) l bestR best = l[j].2 := by
  induction l generalizing bestR best with
  | nil => left; exact ⟨by simp, rfl⟩
  | cons p rest ih =>
    obtain ⟨r, inp⟩ := p
    simp only [argminLoop, fieldOps_lt, decide_eq_true_eq]
    by_cases hr : r < bestR
    · simp only [hr, if_true]
      right
      rcases ih r inp with ⟨hall, hres⟩ | ⟨j, hj, hlt, hmin, hfirst, hres⟩
      · refine ⟨0, by simp, by simpa using hr, ?_, ?_, by simpa using hres⟩
        · intro i hi
          cases i with
          | zero => simp only [List.getElem_cons_zero]; grind
          | succ i =>
            simp only [List.getElem_cons_zero, List.getElem_cons_succ]
            have := hall _ (List.getElem_mem (by simpa using hi : i < rest.length))
            grind
        · intro i hi; omega
      · refine ⟨j + 1, by simp; omega, ?_, ?_, ?_, by simpa using hres⟩
        · simp only [List.getElem_cons_succ]; grind
        · intro i hi
          cases i with
          | zero => simp only [List.getElem_cons_zero, List.getElem_cons_succ]; grind
          | succ i =>
            simp only [List.getElem_cons_succ]
            exact hmin i (by simpa using hi)
        · intro i hi
          cases i with
          | zero => simp only [List.getElem_cons_zero, List.getElem_cons_succ]; exact hlt
          | succ i =>
            simp only [List.getElem_cons_succ]
            exact hfirst i (by omega)
    · simp only [hr, if_false]
      rcases ih bestR best with ⟨hall, hres⟩ | ⟨j, hj, hlt, hmin, hfirst, hres⟩
      · left
        refine ⟨?_, hres⟩
        intro p hp
        rcases List.mem_cons.mp hp with rfl | hp
        · exact hr
        · exact hall p hp
      · right
        refine ⟨j + 1, by simp; omega, ?_, ?_, ?_, by simpa using hres⟩
        · simpa only [List.getElem_cons_succ] using hlt
        · intro i hi
          cases i with
          | zero => simp only [List.getElem_cons_zero, List.getElem_cons_succ]; grind
          | succ i =>
            simp only [List.getElem_cons_succ]
            exact hmin i (by simpa using hi)
        · intro i hi
          cases i with
          | zero => simp only [List.getElem_cons_zero, List.getElem_cons_succ]; grind
          | succ i =>
            simp only [List.getElem_cons_succ]
            exact hfirst i (by omega)

/-- **The first strict minimum wins.** Suppose every grid point's run is ok (`hruns`, see
`runs_exist`), `runs` being the results `(residual vector, residual sum, input)` in grid order.
Then the sweep returns `.ok best`, where either no residual sum is `< top` (`top` stands for
`+∞`) and `best` is the initial empty vector, or `best` is the input of the run `j` whose
residual sum is `< top`, minimal, and strictly smaller than that of every earlier run. -/
theorem ls_first_strict_min (top : F) (b : Bool) (signal resp : List F)
    (offLo offHi laLo laHi : Nat) (runs : List (List F × F × List F))
    (hruns : (grid offLo offHi laLo laHi).map
        (fun p => nnGreedy (fieldOps top) b signal resp p.1 p.2) = runs.map .ok) :
    ∃ best, lsDeconvWith (fieldOps top) b signal resp offLo offHi laLo laHi = .ok best ∧
      (((∀ t ∈ runs, ¬ t.2.1 < top) ∧ best = [])
       ∨ ∃ j, ∃ hj : j < runs.length, runs[j].2.1 < top
          ∧ (∀ i, ∀ hi : i < runs.length, runs[j].2.1 ≤ runs[i].2.1)
          ∧ (∀ i, ∀ hi : i < j, runs[j].2.1 < runs[i].2.1)
          ∧ best = runs[j].2.2) := by
  refine ⟨_, lsLoop_eq_argminLoop (fieldOps top) b signal resp _ runs hruns _ _, ?_⟩
  rcases argminLoop_spec top (runs.map fun t => (t.2.1, t.2.2)) top []
    with ⟨hall, hres⟩ | ⟨j, hj, hlt, hmin, hfirst, hres⟩
  · left
    refine ⟨?_, hres⟩
    intro t ht
    exact hall (t.2.1, t.2.2) (List.mem_map.mpr ⟨t, ht, rfl⟩)
  · right
    have hj' : j < runs.length := by simpa using hj
    refine ⟨j, hj', ?_, ?_, ?_, ?_⟩
    · simpa using hlt
    · intro i hi
      have := hmin i (by simpa using hi)
      simpa only [List.getElem_map] using this
    · intro i hi
      have := hfirst i hi
      simpa only [List.getElem_map] using this
    · simpa using hres

end OrderedField

/-! ### 5. The reconstructed input is non-negative -/

theorem mem_zipWith_elim {β γ δ : Type} (f : β → γ → δ) (l₁ : List β) (l₂ : List γ) (x : δ)
    (h : x ∈ List.zipWith f l₁ l₂) : ∃ a, a ∈ l₁ ∧ ∃ b, b ∈ l₂ ∧ x = f a b := by
  induction l₁ generalizing l₂ with
  | nil => simp at h
  | cons a as ih =>
    cases l₂ with
    | nil => simp at h
    | cons b bs =>
      simp only [List.zipWith_cons_cons, List.mem_cons] at h
      rcases h with rfl | h
      · exact ⟨a, List.mem_cons_self, b, List.mem_cons_self, rfl⟩
      · obtain ⟨a', ha, b', hb, hx⟩ := ih bs h
        exact ⟨a', List.mem_cons_of_mem _ ha, b', List.mem_cons_of_mem _ hb, hx⟩

section OrderedField
open Lean Grind Std
variable {F : Type} [Field F] [LE F] [LT F] [LawfulOrderLT F] [IsLinearOrder F] [OrderedRing F]
  [DecidableLT F] [DecidableLE F]

omit [DecidableLT F] [DecidableLE F] in
theorem div_pos_of_neg_of_neg {s r : F} (hs : s < 0) (hr : r < 0) : 0 < s / r := by
  rw [Field.div_eq_mul_inv]
  exact OrderedRing.mul_pos_of_neg_of_neg hs ((Field.IsOrdered.inv_neg_iff).mpr hr)

omit [LawfulOrderLT F] [IsLinearOrder F] [OrderedRing F] in
theorem foldl_min_pos (top : F) (xs : List F) (x : F) (hx : 0 < x) (hxs : ∀ y ∈ xs, 0 < y) :
    0 < xs.foldl (fieldOps top).min x := by
  induction xs generalizing x with
  | nil => exact hx
  | cons y ys ih =>
    simp only [List.foldl_cons, fieldOps_min]
    apply ih
    · have := hxs y List.mem_cons_self
      split <;> assumption
    · intro z hz; exact hxs z (List.mem_cons_of_mem _ hz)

/-- The value put into `input[i]`: a minimum of quotients of negatives (or `0` for an empty
window, which `nnGreedy` excludes). -/
theorem stepVal_nonneg (top : F) (w rw : List F) (hw : ∀ s ∈ w, s < 0) (hrw : ∀ r ∈ rw, r < 0) :
    0 ≤ stepVal (fieldOps top) w rw := by
  unfold stepVal
  have hall : ∀ x ∈ List.zipWith (fieldOps top).div w rw, 0 < x := by
    intro x hx
    obtain ⟨s, hs, r, hr, rfl⟩ := mem_zipWith_elim _ _ _ _ hx
    exact div_pos_of_neg_of_neg (hw s hs) (hrw r hr)
  split
  · simp only [fieldOps_zero]; grind
  · rename_i x xs hz
    rw [hz] at hall
    have := foldl_min_pos top xs x (hall x List.mem_cons_self)
      (fun y hy => hall y (List.mem_cons_of_mem _ hy))
    grind

/-- … and strictly positive when the two windows are non-empty. -/
theorem stepVal_pos (top : F) (w rw : List F) (hw : ∀ s ∈ w, s < 0) (hrw : ∀ r ∈ rw, r < 0)
    (hwne : w ≠ []) (hrwne : rw ≠ []) : 0 < stepVal (fieldOps top) w rw := by
  unfold stepVal
  have hall : ∀ x ∈ List.zipWith (fieldOps top).div w rw, 0 < x := by
    intro x hx
    obtain ⟨s, hs, r, hr, rfl⟩ := mem_zipWith_elim _ _ _ _ hx
    exact div_pos_of_neg_of_neg (hw s hs) (hrw r hr)
  split
  · rename_i hz
    rcases List.zipWith_eq_nil_iff.mp hz with h | h
    · exact absurd h hwne
    · exact absurd h hrwne
  · rename_i x xs hz
    rw [hz] at hall
    exact foldl_min_pos top xs x (hall x List.mem_cons_self)
      (fun y hy => hall y (List.mem_cons_of_mem _ hy))

/-- Invariant of the plain loop: every sample of `input` stays `≥ 0`. -/
theorem naive_nonneg (top : F) (resp : List F) (off la : Nat)
    (hresp : ∀ r ∈ respWindow resp off la, r < 0) (i : Nat) (res inp : List F)
    (hinp : ∀ x ∈ inp, 0 ≤ x) :
    ∀ x ∈ (naive (fieldOps top) resp off la i res inp).2, 0 ≤ x := by
  fun_induction naive (fieldOps top) resp off la i res inp with
  | case1 i res inp hb hany ih => exact ih hinp
  | case2 i res inp hb hany ih =>
    apply ih
    intro x hx
    rcases List.mem_or_eq_of_mem_set hx with hx | rfl
    · exact hinp x hx
    · apply stepVal_nonneg top _ _ _ hresp
      intro s hs
      have hany' : (window res i off la).any (fieldOps top).nonneg = false := by
        simpa using hany
      have := List.any_eq_false.mp hany' s hs
      simp only [fieldOps_nonneg, decide_eq_true_eq] at this
      grind
  | case3 i res inp hb => exact hinp

theorem loopResult_nonneg (top : F) (b : Bool) (signal resp : List F) (off la : Nat)
    (hresp : ∀ r ∈ respWindow resp off la, r < 0) :
    ∀ x ∈ (loopResult (fieldOps top) b signal resp off la).2, 0 ≤ x := by
  rw [show loopResult (fieldOps top) b signal resp off la
        = loopResult (fieldOps top) false signal resp off la by
      cases b
      · rfl
      · exact loopResult_fast_eq_naive _ _ _ _ _]
  apply naive_nonneg top resp off la hresp
  intro x hx
  rw [List.eq_of_mem_replicate hx, fieldOps_zero]
  grind

omit [LawfulOrderLT F] [IsLinearOrder F] [OrderedRing F] in
theorem responseNeg_field (top : F) (resp : List F) (off la : Nat) :
    ResponseNeg (fieldOps top) resp off la
      ↔ off + la ≤ resp.length ∧ ∀ r ∈ respWindow resp off la, r < 0 := by
  simp [ResponseNeg]

/-- The guards of `nnGreedy` are exactly `ResponseNeg` and "the loop body is never entered with an
empty window" (any carrier). -/
theorem nnGreedy_eq_ok_iff' (b : Bool) (signal resp : List α) (off la : Nat)
    (t : List α × α × List α) :
    nnGreedy o b signal resp off la = .ok t ↔
      (ResponseNeg o resp off la ∧ (0 < la ∨ signal.length < off))
      ∧ t = ((loopResult o b signal resp off la).1,
             sumSq o (loopResult o b signal resp off la).1,
             (loopResult o b signal resp off la).2) := by
  rw [nnGreedy_eq_ok_iff]
  simp only [ResponseNeg, List.all_eq_true]
  constructor
  · rintro ⟨⟨h1, h2, h3, h4⟩, ht⟩
    exact ⟨⟨⟨by omega, h3⟩, by omega⟩, ht⟩
  · rintro ⟨⟨⟨h1, h3⟩, h4⟩, ht⟩
    exact ⟨⟨by omega, by omega, h3, by omega⟩, ht⟩

/-- Totality under the hypotheses of `deconv_nonneg`: no panic. -/
theorem nnGreedy_total (b : Bool) (signal resp : List α) (off la : Nat) (hla : 0 < la)
    (hresp : ResponseNeg o resp off la) :
    ∃ res sum inp, nnGreedy o b signal resp off la = .ok (res, sum, inp) :=
  ⟨_, _, _, (nnGreedy_eq_ok_iff' o b signal resp off la _).mpr ⟨⟨hresp, .inl hla⟩, rfl⟩⟩

/-- `deconv_nonneg` from the run alone: `nnGreedy … = .ok _` already contains the `assert!` on the
response window. -/
theorem deconv_nonneg_of_ok (top : F) (b : Bool) (signal resp : List F) (off la : Nat)
    (res : List F) (sum : F) (inp : List F)
    (h : nnGreedy (fieldOps top) b signal resp off la = .ok (res, sum, inp)) :
    ∀ x ∈ inp, 0 ≤ x := by
  obtain ⟨⟨hresp, _⟩, ht⟩ := (nnGreedy_eq_ok_iff' (fieldOps top) b signal resp off la _).mp h
  injection ht with h1 h2
  injection h2 with h2 h3
  subst h3
  exact loopResult_nonneg top b signal resp off la ((responseNeg_field top resp off la).mp hresp).2

/-- **Non-negativity of the greedy deconvolution.** (`hla` and `hresp` are what makes the run ok,
see `nnGreedy_total`; the conclusion itself follows from `h`, see `deconv_nonneg_of_ok`.) -/
theorem deconv_nonneg (top : F) (b : Bool) (signal resp : List F) (off la : Nat)
    (res : List F) (sum : F) (inp : List F) (_hla : 0 < la)
    (_hresp : ResponseNeg (fieldOps top) resp off la)
    (h : nnGreedy (fieldOps top) b signal resp off la = .ok (res, sum, inp)) :
    ∀ x ∈ inp, 0 ≤ x :=
  deconv_nonneg_of_ok top b signal resp off la res sum inp h

end OrderedField

/-! ### 5b. The sweep, pads and wires -/

theorem mem_grid (offLo offHi laLo laHi off la : Nat) :
    (off, la) ∈ grid offLo offHi laLo laHi
      ↔ (offLo ≤ off ∧ off ≤ offHi) ∧ (laLo ≤ la ∧ la ≤ laHi) := by
  simp only [grid, List.mem_flatMap, List.mem_map, List.mem_range'_1, Prod.mk.injEq]
  constructor
  · rintro ⟨a, ha, b, hb, rfl, rfl⟩; omega
  · intro h; exact ⟨off, by omega, la, by omega, rfl, rfl⟩

/-- The sweep does not panic when no run does. -/
theorem lsLoop_total (b : Bool) (signal resp : List α) (g : List (Nat × Nat))
    (h : ∀ p ∈ g, ∃ t, nnGreedy o b signal resp p.1 p.2 = .ok t) (bestR : α) (best : List α) :
    ∃ out, lsLoop o b signal resp g bestR best = .ok out := by
  obtain ⟨runs, hruns⟩ := runs_exist (fun p => nnGreedy o b signal resp p.1 p.2) g h
  exact ⟨_, lsLoop_eq_argminLoop o b signal resp g runs hruns bestR best⟩

section OrderedField
open Lean Grind Std
variable {F : Type} [Field F] [LE F] [LT F] [LawfulOrderLT F] [IsLinearOrder F] [OrderedRing F]
  [DecidableLT F] [DecidableLE F]

/-- Non-negativity of the sweep's result from the sweep being ok alone. -/
theorem deconv_nonneg_ls_of_ok (top : F) (b : Bool) (signal resp : List F)
    (offLo offHi laLo laHi : Nat) (inp : List F)
    (h : lsDeconvWith (fieldOps top) b signal resp offLo offHi laLo laHi = .ok inp) :
    ∀ x ∈ inp, 0 ≤ x :=
  lsLoop_invariant (fieldOps top) (fun l => ∀ x ∈ l, 0 ≤ x) b signal resp
    (fun off la res r i0 hrun => deconv_nonneg_of_ok top b signal resp off la res r i0 hrun)
    _ _ _ _ (by simp) h

/-- **Non-negativity of `ls_deconvolution`.** If the response is negative on the window of every
grid point and no look-ahead is `0`, the sweep does not panic and every sample of its result is
`≥ 0`. -/
theorem deconv_nonneg_ls (top : F) (b : Bool) (signal resp : List F)
    (offLo offHi laLo laHi : Nat) (hla : 0 < laLo)
    (hresp : ∀ off la, offLo ≤ off → off ≤ offHi → laLo ≤ la → la ≤ laHi →
      ResponseNeg (fieldOps top) resp off la) :
    ∃ inp, lsDeconvWith (fieldOps top) b signal resp offLo offHi laLo laHi = .ok inp
      ∧ ∀ x ∈ inp, 0 ≤ x := by
  obtain ⟨inp, h⟩ := lsLoop_total (fieldOps top) b signal resp (grid offLo offHi laLo laHi)
    (by
      rintro ⟨off, la⟩ hp
      obtain ⟨⟨h1, h2⟩, h3, h4⟩ := (mem_grid _ _ _ _ _ _).mp hp
      obtain ⟨res, sum, inp, h⟩ := nnGreedy_total (fieldOps top) b signal resp off la
        (by omega) (hresp off la h1 h2 h3 h4)
      exact ⟨_, h⟩)
    top []
  exact ⟨inp, h, deconv_nonneg_ls_of_ok top b signal resp offLo offHi laLo laHi inp h⟩

/-- `pad_deconvolution`: offsets `3..=5`, look-aheads `7..=12`. -/
theorem deconv_nonneg_pad (top : F) (padResp signal : List F)
    (hresp : ∀ off la, 3 ≤ off → off ≤ 5 → 7 ≤ la → la ≤ 12 →
      ResponseNeg (fieldOps top) padResp off la) :
    ∃ inp, padDeconv (fieldOps top) padResp signal = .ok inp ∧ ∀ x ∈ inp, 0 ≤ x :=
  deconv_nonneg_ls top true signal padResp 3 5 7 12 (by omega) hresp

/-- The per-wire sweep of `wire_range_deconvolution`: offsets `0..=1`, look-aheads `3..=12`. -/
theorem deconv_nonneg_wire (top : F) (wireResp signal : List F)
    (hresp : ∀ off la, 0 ≤ off → off ≤ 1 → 3 ≤ la → la ≤ 12 →
      ResponseNeg (fieldOps top) wireResp off la) :
    ∃ inp, wireDeconv (fieldOps top) wireResp signal = .ok inp ∧ ∀ x ∈ inp, 0 ≤ x :=
  deconv_nonneg_ls top true signal wireResp 0 1 3 12 (by omega) hresp

theorem deconv_nonneg_pad_of_ok (top : F) (padResp signal inp : List F)
    (h : padDeconv (fieldOps top) padResp signal = .ok inp) : ∀ x ∈ inp, 0 ≤ x :=
  deconv_nonneg_ls_of_ok top true signal padResp 3 5 7 12 inp h

theorem deconv_nonneg_wire_of_ok (top : F) (wireResp signal inp : List F)
    (h : wireDeconv (fieldOps top) wireResp signal = .ok inp) : ∀ x ∈ inp, 0 ≤ x :=
  deconv_nonneg_ls_of_ok top true signal wireResp 0 1 3 12 inp h

/-- Every sample of every channel of a deconvolved block of wires is `≥ 0` (whatever the
Cholesky step `cholSolve` does). -/
theorem deconv_nonneg_wires (top : F)
    (cholSolve : Nat → Nat → (Nat → Nat → F) → (Nat → Nat → F))
    (wireResp : List F) (block out : List (Nat × List F))
    (h : wireRangeDeconv (fieldOps top) cholSolve wireResp block = .ok out) :
    ∀ p ∈ out, ∀ x ∈ p.2, 0 ≤ x := by
  unfold wireRangeDeconv at h
  split at h
  · rename_i sol hsol
    injection h with h; subst h
    rintro ⟨a, s⟩ hp
    have hs' : s ∈ sol := (List.of_mem_zip hp).2
    unfold wireSignalsDeconv at hsol
    split at hsol
    · cases hsol
    · have hs := sequence_eq_ok _ _ hsol
      have : Outcome.ok s ∈ sol.map (Outcome.ok (ε := Unit)) := List.mem_map.mpr ⟨s, hs', rfl⟩
      rw [← hs] at this
      obtain ⟨column, _, hc⟩ := List.mem_map.mp this
      exact deconv_nonneg_wire_of_ok top wireResp _ s hc
  · cases h
  · cases h

end OrderedField

/-! ### 6. Non-vacuity (over `Rat`, `top = 1000`) -/

instance (resp : List α) (off la : Nat) : Decidable (ResponseNeg o resp off la) := by
  unfold ResponseNeg; exact inferInstance

/-- The hypotheses of `deconv_nonneg` hold for a short front-heavy negative response. -/
example : ResponseNeg (fieldOps (1000 : Rat)) [-2, -1, -1] 0 2 ∧ 0 < 2 :=
  ⟨by decide +kernel, by omega⟩

/-- … the run is then ok (`nnGreedy_total`), here on the response convolved with `[1,0,2,0,0]`;
the input is recovered exactly, residual `0`, both loops. -/
example : ∀ b, nnGreedy (fieldOps (1000 : Rat)) b [-2, -1, -5, -2, -2] [-2, -1, -1] 0 2
    = .ok ([0, 0, 0, 0, 0], 0, [1, 0, 2, 0, 0]) := by decide +kernel

/-- A run with a non-zero residual. -/
example : nnGreedy (fieldOps (1000 : Rat)) true [-2, -1, -5, -3, -2, 1] [-2, -1, -1] 0 2
    = .ok ([0, 0, 0, -1, 0, 1], 2, [1, 0, 2, 0, 0, 0]) := by decide +kernel

/-- `ls_first_strict_min` on a 2 × 2 grid: the residual sums are `5/2, 2, 98, 42` in grid order;
the second run (the first one attaining the minimum `2`) wins. -/
example : (grid 0 1 1 2).map (fun p =>
      nnGreedy (fieldOps (1000 : Rat)) true [-2, -1, -5, -3, -2, 1] [-2, -1, -1] p.1 p.2)
    = [([0, 0, 0, 0, 1/2, 3/2], 5/2, [1, 0, 2, 1/2, 0, 0]),
       ([0, 0, 0, -1, 0, 1], 2, [1, 0, 2, 0, 0, 0]),
       ([0, 8, 0, 5, 0, 3], 98, [1, 4, 0, 2, 0, 0]),
       ([0, 6, -1, 0, -2, 1], 42, [1, 3, 0, 0, 0, 0])].map .ok := by decide +kernel

example : lsDeconvWith (fieldOps (1000 : Rat)) true [-2, -1, -5, -3, -2, 1] [-2, -1, -1] 0 1 1 2
    = .ok [1, 0, 2, 0, 0, 0] := by decide +kernel

/-- The hypotheses of `deconv_nonneg_ls` for that grid. -/
example : ∀ off la, 0 ≤ off → off ≤ 1 → 1 ≤ la → la ≤ 2 →
    ResponseNeg (fieldOps (1000 : Rat)) [-2, -1, -1] off la := by
  intro off la _ h1 h2 h3
  have : off = 0 ∨ off = 1 := by omega
  have : la = 1 ∨ la = 2 := by omega
  rcases ‹off = 0 ∨ off = 1› with rfl | rfl <;> rcases ‹la = 1 ∨ la = 2› with rfl | rfl <;>
    decide +kernel

/-- `deconv_nonneg` applied to the run above. -/
example : ∀ x ∈ [1, 0, 2, 0, 0, 0], (0 : Rat) ≤ x :=
  deconv_nonneg 1000 true [-2, -1, -5, -3, -2, 1] [-2, -1, -1] 0 2 [0, 0, 0, -1, 0, 1] 2 _
    (by omega) (by decide +kernel) (by decide +kernel)

/-- `ls_first_strict_min` applied to the 2 × 2 sweep above: its second alternative holds with
`j = 1`. -/
example :=
  ls_first_strict_min (1000 : Rat) true [-2, -1, -5, -3, -2, 1] [-2, -1, -1] 0 1 1 2
    [([0, 0, 0, 0, 1/2, 3/2], 5/2, [1, 0, 2, 1/2, 0, 0]),
     ([0, 0, 0, -1, 0, 1], 2, [1, 0, 2, 0, 0, 0]),
     ([0, 8, 0, 5, 0, 3], 98, [1, 4, 0, 2, 0, 0]),
     ([0, 6, -1, 0, -2, 1], 42, [1, 3, 0, 0, 0, 0])] (by decide +kernel)

end AlphaG.Deconv
