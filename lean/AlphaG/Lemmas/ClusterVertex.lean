import AlphaG.Model.Vertexing
import AlphaG.Lemmas.ClusterList
/-
Lemmas for the `find_vertices` bookkeeping. Core Lean only.
-/
namespace AlphaG.Vertexing
open AlphaG.Cluster (position swapRemove cnt ind)

/-- Hypotheses: `Track ==` is an equivalence (NaN-free parameters) and the sort returns a
permutation of its argument whenever it returns. -/
structure Ctx.Good (ctx : Ctx) : Prop where
  eq_refl : ∀ a, ctx.eq a a = true
  eq_symm : ∀ a b, ctx.eq a b = true → ctx.eq b a = true
  eq_trans : ∀ a b c, ctx.eq a b = true → ctx.eq b c = true → ctx.eq a c = true
  sort_perm : ∀ l l', ctx.sort l = some l' → l'.Perm l

/-- The clustering context that shares `eq` (to reuse the `position`/`swap_remove` lemmas). -/
def Ctx.toCluster (ctx : Ctx) : AlphaG.Cluster.Ctx := ⟨ctx.eq, fun _ => [], fun _ _ => false⟩

theorem Ctx.Good.toCluster {ctx : Ctx} (g : ctx.Good) : ctx.toCluster.Good :=
  ⟨g.eq_refl, g.eq_symm, g.eq_trans, fun _ => List.nodup_nil, fun _ _ _ _ => Iff.rfl⟩

/-- The remainder loop: `position(..).unwrap()` is safe while the removed tracks form a
sub-multiset of what is left (same argument as for the clustering remainder). -/
theorem removeTracks_spec {ctx : Ctx} (g : ctx.Good) :
    ∀ (l ts : List Nat), (∀ x, cnt ctx.toCluster x l ≤ cnt ctx.toCluster x ts) →
      ∃ rem, removeTracks ctx l ts = .ok rem ∧
        ∀ x, cnt ctx.toCluster x rem + cnt ctx.toCluster x l = cnt ctx.toCluster x ts := by
  have gc := g.toCluster
  intro l
  induction l with
  | nil => intro ts _; exact ⟨ts, rfl, by simp⟩
  | cons p l ih =>
    intro ts hle
    unfold removeTracks
    have hp : 0 < cnt ctx.toCluster p ts := by
      have := hle p
      rw [AlphaG.Cluster.cnt_cons] at this
      have : ind ctx.toCluster p p = 1 := by simp [ind, gc.eq_refl]
      omega
    have hpos : position (fun q => ctx.eq q p) ts ≠ none :=
      AlphaG.Cluster.position_ne_none gc hp
    cases hpo : position (fun q => ctx.eq q p) ts with
    | none => exact absurd hpo hpos
    | some i =>
      simp only
      have hc := AlphaG.Cluster.cnt_swapRemove_position gc (l := ts) (p := p) (i := i) hpo
      obtain ⟨rem, hr, hrem⟩ := ih (swapRemove ts i)
        (by intro x; have := hle x; have := hc x; rw [AlphaG.Cluster.cnt_cons] at *; omega)
      refine ⟨rem, hr, ?_⟩
      intro x
      have := hrem x; have := hc x
      rw [AlphaG.Cluster.cnt_cons]; omega

/-! ### grouping -/

/-- All clusters non-empty and at least one cluster: the two `last().unwrap()` are safe. -/
def NonEmpty (cls : List (List Nat)) : Prop := cls ≠ [] ∧ ∀ c ∈ cls, c ≠ []

theorem groupStep_spec (ctx : Ctx) {cls : List (List Nat)} (h : NonEmpty cls) (t : Nat) :
    ∃ cls', groupStep ctx cls t = .ok cls' ∧ NonEmpty cls' ∧
      cls'.flatten.Perm (cls.flatten ++ [t]) := by
  unfold groupStep
  obtain ⟨hne, hall⟩ := h
  have hsplit : cls = cls.dropLast ++ [cls.getLast hne] := (List.dropLast_concat_getLast hne).symm
  rw [List.getLast?_eq_some_getLast hne]
  simp only
  have hc : cls.getLast hne ≠ [] := hall _ (List.getLast_mem hne)
  rw [List.getLast?_eq_some_getLast hc]
  simp only
  by_cases hcl : ctx.close t ((cls.getLast hne).getLast hc) = true
  · simp only [hcl, if_true]
    refine ⟨_, rfl, ⟨by simp, ?_⟩, ?_⟩
    · intro c hcm
      rcases List.mem_append.1 hcm with h1 | h1
      · exact hall c (List.dropLast_subset _ h1)
      · simp only [List.mem_singleton] at h1; subst h1; simp
    · conv => rhs; rw [hsplit]
      simp
  · simp only [hcl, Bool.false_eq_true, if_false]
    refine ⟨_, rfl, ⟨by simp, ?_⟩, by simp⟩
    intro c hcm
    rcases List.mem_append.1 hcm with h1 | h1
    · exact hall c h1
    · simp only [List.mem_singleton] at h1; subst h1; simp

theorem groupAll_spec (ctx : Ctx) :
    ∀ (ts : List Nat) {cls : List (List Nat)}, NonEmpty cls →
      ∃ cls', groupAll ctx ts cls = .ok cls' ∧ NonEmpty cls' ∧
        cls'.flatten.Perm (cls.flatten ++ ts) := by
  intro ts
  induction ts with
  | nil => intro cls h; exact ⟨cls, rfl, h, by simp⟩
  | cons t ts ih =>
    intro cls h
    obtain ⟨c1, h1, hn1, hp1⟩ := groupStep_spec ctx h t
    obtain ⟨c2, h2, hn2, hp2⟩ := ih hn1
    refine ⟨c2, ?_, hn2, ?_⟩
    · unfold groupAll; rw [h1]; exact h2
    · refine hp2.trans ?_
      refine (hp1.append_right ts).trans ?_
      simp

/-- The clusters returned by `beamline_clusters` together are a permutation of its input. -/
theorem beamlineClusters_perm {ctx : Ctx} (g : ctx.Good) (tracks : List Nat)
    (cls : List (List Nat)) (h : beamlineClusters ctx tracks = .ok cls) :
    cls.flatten.Perm tracks := by
  unfold beamlineClusters at h
  by_cases he : tracks.isEmpty = true
  · simp only [he, if_true, Outcome.ok.injEq] at h
    have : tracks = [] := by simpa using he
    subst this; subst h
    simp
  · simp only [he, Bool.false_eq_true, if_false] at h
    cases hso : ctx.sort tracks with
    | none => rw [hso] at h; cases h
    | some l =>
      rw [hso] at h
      have hp := g.sort_perm _ _ hso
      cases l with
      | nil => cases h
      | cons t0 ts =>
        simp only at h
        obtain ⟨cls', h1, _, hp1⟩ := groupAll_spec ctx ts (cls := [[t0]])
          ⟨by simp, by intro c hc; simp at hc; subst hc; simp⟩
        rw [h1] at h
        cases h
        exact (hp1.trans (by simp)).trans hp

/-- `beamline_clusters` panics only if the sort does (a NaN reaching `partial_cmp().unwrap()`):
`tracks[0]`, `clusters.last().unwrap()` and `.last().unwrap()` are unreachable. -/
theorem beamlineClusters_total {ctx : Ctx} (g : ctx.Good) (tracks : List Nat)
    (hs : ctx.sort tracks ≠ none) : ∃ cls, beamlineClusters ctx tracks = .ok cls := by
  unfold beamlineClusters
  by_cases he : tracks.isEmpty = true
  · simp only [he, if_true]
    exact ⟨[], rfl⟩
  · simp only [he, Bool.false_eq_true, if_false]
    cases hso : ctx.sort tracks with
    | none => exact absurd hso hs
    | some l =>
      have hp := g.sort_perm _ _ hso
      cases l with
      | nil =>
        have := hp.length_eq
        simp only [List.length_nil] at this
        have : tracks = [] := List.eq_nil_of_length_eq_zero this.symm
        subst this
        simp at he
      | cons t0 ts =>
        simp only
        obtain ⟨cls, h1, _, _⟩ := groupAll_spec ctx ts (cls := [[t0]])
          ⟨by simp, by intro c hc; simp at hc; subst hc; simp⟩
        exact ⟨cls, h1⟩

/-! ### selection -/

theorem maxSetByKey_subset {α : Type} (key : α → Nat) (l : List α) :
    ∀ a ∈ maxSetByKey key l, a ∈ l := by
  unfold maxSetByKey
  suffices h : ∀ (l acc : List α) (S : List α), (∀ a ∈ acc, a ∈ S) → (∀ a ∈ l, a ∈ S) →
      ∀ a ∈ l.foldl (fun acc x =>
        match acc with
        | [] => [x]
        | a :: _ => if key a < key x then [x] else if key x = key a then acc ++ [x] else acc) acc,
        a ∈ S by
    exact h l [] l (by intro a ha; cases ha) (fun a ha => ha)
  intro l
  induction l with
  | nil => intro acc S h1 _ a ha; exact h1 a ha
  | cons x l ih =>
    intro acc S h1 h2
    simp only [List.foldl_cons]
    apply ih
    · intro a ha
      cases acc with
      | nil =>
        simp only [List.mem_singleton] at ha; subst ha
        exact h2 _ List.mem_cons_self
      | cons b acc' =>
        simp only at ha
        split at ha
        · simp only [List.mem_singleton] at ha; subst ha; exact h2 _ List.mem_cons_self
        · split at ha
          · rcases List.mem_append.1 ha with h | h
            · exact h1 a h
            · simp only [List.mem_singleton] at h; subst h; exact h2 _ List.mem_cons_self
          · exact h1 a ha
    · intro a ha; exact h2 a (List.mem_cons_of_mem _ ha)

theorem maxByFold_spec {α : Type} (cmp : α → α → Option Ordering) :
    ∀ (l : List α) (best : α),
      (∀ b, maxByFold cmp best l = .ok b → b ∈ best :: l) ∧
      ((∀ a b, cmp a b ≠ none) → ∃ b, maxByFold cmp best l = .ok b) := by
  intro l
  induction l with
  | nil =>
    intro best
    refine ⟨?_, fun _ => ⟨best, rfl⟩⟩
    intro b h
    simp only [maxByFold, Outcome.ok.injEq] at h
    simp [h]
  | cons x l ih =>
    intro best
    constructor
    · intro b h
      unfold maxByFold at h
      cases hc : cmp best x with
      | none => rw [hc] at h; cases h
      | some o =>
        rw [hc] at h
        cases o with
        | gt =>
          rcases List.mem_cons.1 ((ih best).1 b h) with h' | h'
          · simp [h']
          · simp [h']
        | lt => exact List.mem_cons_of_mem _ ((ih x).1 b h)
        | eq => exact List.mem_cons_of_mem _ ((ih x).1 b h)
    · intro hall
      unfold maxByFold
      cases hc : cmp best x with
      | none => exact absurd hc (hall _ _)
      | some o =>
        cases o with
        | gt => exact (ih best).2 hall
        | lt => exact (ih x).2 hall
        | eq => exact (ih x).2 hall

theorem maxBy_mem {α : Type} {cmp : α → α → Option Ordering} {l : List α} {v : α}
    (h : maxBy cmp l = .ok (some v)) : v ∈ l := by
  cases l with
  | nil => simp [maxBy] at h
  | cons a l =>
    simp only [maxBy] at h
    cases hf : maxByFold cmp a l with
    | ok b =>
      rw [hf] at h
      simp only [Outcome.ok.injEq, Option.some.injEq] at h
      subst h
      exact (maxByFold_spec cmp l a).1 b hf
    | err e => rw [hf] at h; cases h
    | panic s => rw [hf] at h; cases h

theorem maxBy_total {α : Type} {cmp : α → α → Option Ordering} (hall : ∀ a b, cmp a b ≠ none)
    (l : List α) : ∃ v, maxBy cmp l = .ok v := by
  cases l with
  | nil => exact ⟨none, rfl⟩
  | cons a l =>
    obtain ⟨b, hb⟩ := (maxByFold_spec cmp l a).2 hall
    exact ⟨some b, by simp only [maxBy]; rw [hb]⟩


/-- `max_by` panics only at its own `partial_cmp().unwrap()`, and only if a comparison met a
NaN. -/
theorem maxBy_panic {α : Type} (cmp : α → α → Option Ordering) (l : List α) (s : String)
    (h : maxBy cmp l = .panic s) : s = "find_vertices:partial_cmp" ∧ ∃ a b, cmp a b = none := by
  have key : ∀ (l : List α) (best : α), maxByFold cmp best l = .panic s →
      s = "find_vertices:partial_cmp" ∧ ∃ a b, cmp a b = none := by
    intro l
    induction l with
    | nil => intro best h; simp [maxByFold] at h
    | cons x l ih =>
      intro best h
      unfold maxByFold at h
      cases hc : cmp best x with
      | none =>
        rw [hc] at h
        simp only [Outcome.panic.injEq] at h
        exact ⟨h.symm, best, x, hc⟩
      | some o =>
        rw [hc] at h
        cases o <;> simp only at h <;> first | exact ih x h | exact ih best h
  cases l with
  | nil => simp [maxBy] at h
  | cons a l =>
    simp only [maxBy] at h
    cases hf : maxByFold cmp a l with
    | ok b => rw [hf] at h; cases h
    | err e => rw [hf] at h; cases h
    | panic s' =>
      rw [hf] at h
      simp only [Outcome.panic.injEq] at h
      subst h
      exact key l a hf

/-- `beamline_clusters` panics only at the sort's `partial_cmp().unwrap()`. -/
theorem beamlineClusters_panic {ctx : Ctx} (g : ctx.Good) (tracks : List Nat) (s : String)
    (h : beamlineClusters ctx tracks = .panic s) :
    s = "beamline_clusters:partial_cmp" ∧ ctx.sort tracks = none := by
  cases hso : ctx.sort tracks with
  | some l =>
    obtain ⟨cls, hc⟩ := beamlineClusters_total g tracks (by rw [hso]; simp)
    rw [hc] at h; cases h
  | none =>
    unfold beamlineClusters at h
    by_cases he : tracks.isEmpty = true
    · simp [he] at h
    · simp only [he, Bool.false_eq_true, if_false, hso, Outcome.panic.injEq] at h
      exact ⟨h.symm, rfl⟩

end AlphaG.Vertexing
