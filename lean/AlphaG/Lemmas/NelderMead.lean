import AlphaG.Model.NelderMead
/-
Lemmas about the Nelder–Mead model (Model/NelderMead.lean) used by Props/C14c: `Outcome.bind`
inversion, the argmin-math vector operations on vectors of the right dimension, and the insertion
sort (`sortSimplex`): it permutes its input and, when `<` is a strict weak order on the costs that
occur, its first element is the *first* minimum of the input (`firstMin`). Core Lean only.
-/
namespace AlphaG.NelderMead
open AlphaG

section Bind
variable {ε β γ : Type}

theorem bind_eq_ok {x : Outcome ε β} {f : β → Outcome ε γ} {b : γ} :
    x.bind f = .ok b ↔ ∃ a, x = .ok a ∧ f a = .ok b := by
  cases x <;> simp [Outcome.bind]

theorem bind_eq_panic {x : Outcome ε β} {f : β → Outcome ε γ} {s : String} :
    x.bind f = .panic s ↔ x = .panic s ∨ ∃ a, x = .ok a ∧ f a = .panic s := by
  cases x <;> simp [Outcome.bind]

theorem bind_eq_err {x : Outcome ε β} {f : β → Outcome ε γ} {e : ε} :
    x.bind f = .err e ↔ x = .err e ∨ ∃ a, x = .ok a ∧ f a = .err e := by
  cases x <;> simp [Outcome.bind]

@[simp] theorem bind_ok' (a : β) (f : β → Outcome ε γ) : (Outcome.ok a : Outcome ε β).bind f = f a := rfl
@[simp] theorem bind_panic' (s : String) (f : β → Outcome ε γ) :
    (Outcome.panic s : Outcome ε β).bind f = .panic s := rfl
@[simp] theorem bind_err' (e : ε) (f : β → Outcome ε γ) :
    (Outcome.err e : Outcome ε β).bind f = .err e := rfl

end Bind

variable {α ε : Type} (o : NOps α)

/-! ### vectors of dimension `n ≥ 1` -/

theorem vadd_ok {n : Nat} (hn : 0 < n) (a b : List α) (ha : a.length = n) (hb : b.length = n) :
    (vadd o a b : Outcome ε (List α)) = .ok (List.zipWith o.add a b) ∧
      (List.zipWith o.add a b).length = n := by
  constructor
  · unfold vadd
    rw [if_neg]
    omega
  · simp [ha, hb]

theorem vsub_ok {n : Nat} (hn : 0 < n) (a b : List α) (ha : a.length = n) (hb : b.length = n) :
    (vsub o a b : Outcome ε (List α)) = .ok (List.zipWith o.sub a b) ∧
      (List.zipWith o.sub a b).length = n := by
  constructor
  · unfold vsub
    rw [if_neg]
    omega
  · simp [ha, hb]

theorem vscale_length (a : List α) (s : α) : (vscale o a s).length = a.length := by
  simp [vscale]

/-- `x0 + (a - b) * k` of three vectors of dimension `n ≥ 1` is a vector of dimension `n`; none of
the argmin-math asserts fires. -/
theorem affine_ok {n : Nat} (hn : 0 < n) (x0 a b : List α) (k : α)
    (h0 : x0.length = n) (ha : a.length = n) (hb : b.length = n) :
    ∃ r, (affine o x0 a b k : Outcome ε (List α)) = .ok r ∧ r.length = n := by
  unfold affine
  rw [(vsub_ok (ε := ε) o hn a b ha hb).1]
  simp only [bind_ok']
  have hl : (vscale o (List.zipWith o.sub a b) k).length = n := by
    rw [vscale_length]; exact (vsub_ok (ε := ε) o hn a b ha hb).2
  exact ⟨_, (vadd_ok (ε := ε) o hn x0 _ h0 hl).1, (vadd_ok (ε := ε) o hn x0 _ h0 hl).2⟩

theorem foldAdd_ok {n : Nat} (hn : 0 < n) (ps : List (List α)) (acc : List α) (hacc : acc.length = n)
    (hps : ∀ p ∈ ps, p.length = n) :
    ∃ r, (foldAdd o acc ps : Outcome ε (List α)) = .ok r ∧ r.length = n := by
  induction ps generalizing acc with
  | nil => exact ⟨acc, rfl, hacc⟩
  | cons p ps ih =>
    unfold foldAdd
    rw [(vadd_ok (ε := ε) o hn acc p hacc (hps p (by simp))).1]
    simp only [bind_ok']
    exact ih _ (vadd_ok (ε := ε) o hn acc p hacc (hps p (by simp))).2 (fun q hq => hps q (by simp [hq]))

/-! ### `sortSimplex` -/

theorem insRev_perm (x : Vertex α) (l : List (Vertex α)) : (insRev o x l).Perm (x :: l) := by
  induction l with
  | nil => exact List.Perm.refl _
  | cons y ys ih =>
    unfold insRev
    split
    · exact ((List.Perm.cons y ih).trans (List.Perm.swap x y ys))
    · exact List.Perm.refl _

theorem foldl_insRev_perm (s acc : List (Vertex α)) :
    (s.foldl (fun acc x => insRev o x acc) acc).Perm (s.reverse ++ acc) := by
  induction s generalizing acc with
  | nil => simp
  | cons x xs ih =>
    simp only [List.foldl_cons, List.reverse_cons, List.append_assoc, List.singleton_append]
    refine (ih (insRev o x acc)).trans ?_
    exact List.Perm.append_left _ (insRev_perm o x acc)

/-- `sort_param_vecs` permutes the simplex (whatever `<` does, NaN included). -/
theorem sortSimplex_perm (s : List (Vertex α)) : (sortSimplex o s).Perm s := by
  unfold sortSimplex
  refine (List.reverse_perm _).trans ?_
  have := foldl_insRev_perm o s []
  simp only [List.append_nil] at this
  exact this.trans (List.reverse_perm s)

theorem sortSimplex_length (s : List (Vertex α)) : (sortSimplex o s).length = s.length :=
  (sortSimplex_perm o s).length_eq

theorem mem_sortSimplex (s : List (Vertex α)) (v : Vertex α) : v ∈ sortSimplex o s ↔ v ∈ s :=
  (sortSimplex_perm o s).mem_iff

/-- The order laws the solver relies on, for the values satisfying `Num` ("not NaN"). They hold for
IEEE `f64` with `Num x := ¬ x.is_nan()`, and for any linear order with `Num := True`. -/
structure OrdLaws (Num : α → Prop) : Prop where
  lt_irrefl : ∀ a, Num a → o.lt a a = false
  lt_trans : ∀ a b c, Num a → Num b → Num c → o.lt a b = true → o.lt b c = true → o.lt a c = true
  /-- incomparability is transitive (`<` is a strict weak order) -/
  lt_negtrans : ∀ a b c, Num a → Num b → Num c → o.lt a b = false → o.lt b c = false → o.lt a c = false
  le_iff : ∀ a b, Num a → Num b → (o.le a b = true ↔ o.lt b a = false)
  inf_num : Num o.inf
  /-- every non-NaN value is `< +inf` or is `+inf` itself -/
  accept_inf : ∀ c, Num c → o.lt c o.inf = true ∨
    (o.isInf c = true ∧ o.isInf o.inf = true ∧ o.signPos c = o.signPos o.inf)
  /-- two infinities of the same sign are not ordered -/
  same_inf : ∀ a b, Num a → Num b → o.isInf a = true → o.isInf b = true → o.signPos a = o.signPos b →
    o.lt a b = false ∧ o.lt b a = false

variable {o}

theorem OrdLaws.lt_asymm {Num : α → Prop} (L : OrdLaws o Num) (a b : α) (ha : Num a) (hb : Num b)
    (h : o.lt a b = true) : o.lt b a = false := by
  cases hba : o.lt b a with
  | false => rfl
  | true =>
    have := L.lt_trans a b a ha hb ha h hba
    rw [L.lt_irrefl a ha] at this
    cases this

variable (o)

/-- The first minimum of `v0 :: rest` (a later element replaces the current one only when it is
strictly smaller). -/
def firstMin (v0 : Vertex α) (rest : List (Vertex α)) : Vertex α :=
  rest.foldl (fun m x => if o.lt x.2 m.2 then x else m) v0

theorem firstMin_mem (v0 : Vertex α) (rest : List (Vertex α)) : firstMin o v0 rest ∈ v0 :: rest := by
  unfold firstMin
  induction rest generalizing v0 with
  | nil => simp
  | cons x xs ih =>
    simp only [List.foldl_cons]
    have := ih (if o.lt x.2 v0.2 then x else v0)
    rcases List.mem_cons.1 this with h | h
    · rw [h]; split <;> simp
    · simp [h]

variable {o}

/-- Nothing in `v0 :: rest` is strictly below the first minimum. -/
theorem firstMin_le {Num : α → Prop} (L : OrdLaws o Num) (v0 : Vertex α) (rest : List (Vertex α))
    (hnum : ∀ v ∈ v0 :: rest, Num v.2) :
    ∀ v ∈ v0 :: rest, o.lt v.2 (firstMin o v0 rest).2 = false := by
  unfold firstMin
  induction rest generalizing v0 with
  | nil =>
    intro v hv
    simp only [List.mem_singleton] at hv
    subst hv
    exact L.lt_irrefl _ (hnum _ (by simp))
  | cons x xs ih =>
    simp only [List.foldl_cons]
    have hx : Num x.2 := hnum x (by simp)
    have h0 : Num v0.2 := hnum v0 (by simp)
    have hm : Num (if o.lt x.2 v0.2 then x else v0).2 := by split <;> assumption
    have hnum' : ∀ v ∈ (if o.lt x.2 v0.2 then x else v0) :: xs, Num v.2 := by
      intro v hv
      rcases List.mem_cons.1 hv with h | h
      · rw [h]; exact hm
      · exact hnum v (by simp [h])
    have key := ih (if o.lt x.2 v0.2 then x else v0) hnum'
    have hfin : Num (List.foldl (fun m x => if o.lt x.2 m.2 then x else m) (if o.lt x.2 v0.2 then x else v0) xs).2 := by
      have := firstMin_mem o (if o.lt x.2 v0.2 then x else v0) xs
      unfold firstMin at this
      exact hnum' _ this
    have hmle := key _ (List.mem_cons_self)
    intro v hv
    rcases List.mem_cons.1 hv with h | h
    · -- v = v0
      subst h
      by_cases hlt : o.lt x.2 v.2 = true
      · -- the running minimum became x < v0
        simp only [hlt, if_true] at hmle hfin ⊢
        have : o.lt v.2 x.2 = false := L.lt_asymm _ _ hx h0 hlt
        exact L.lt_negtrans _ _ _ h0 hx hfin this hmle
      · simp only [hlt] at hmle hfin ⊢
        exact hmle
    · rcases List.mem_cons.1 h with h | h
      · -- v = x
        subst h
        by_cases hlt : o.lt v.2 v0.2 = true
        · simp only [hlt, if_true] at hmle hfin ⊢
          exact hmle
        · have hlt' : o.lt v.2 v0.2 = false := by simpa using hlt
          simp only [hlt] at hmle hfin ⊢
          exact L.lt_negtrans _ _ _ hx h0 hfin hlt' hmle
      · exact key v (by simp [h])

/-- The first minimum is the first element itself, or strictly below it. -/
theorem firstMin_eq_or_lt {Num : α → Prop} (L : OrdLaws o Num) (v0 : Vertex α) (rest : List (Vertex α))
    (hnum : ∀ v ∈ v0 :: rest, Num v.2) :
    firstMin o v0 rest = v0 ∨ o.lt (firstMin o v0 rest).2 v0.2 = true := by
  unfold firstMin
  suffices H : ∀ (m : Vertex α), Num m.2 → (m = v0 ∨ o.lt m.2 v0.2 = true) → (∀ v ∈ rest, Num v.2) →
      (rest.foldl (fun m x => if o.lt x.2 m.2 then x else m) m = v0 ∨
        o.lt (rest.foldl (fun m x => if o.lt x.2 m.2 then x else m) m).2 v0.2 = true) from
    H v0 (hnum v0 (by simp)) (Or.inl rfl) (fun v hv => hnum v (by simp [hv]))
  have h0 : Num v0.2 := hnum v0 (by simp)
  clear hnum
  induction rest with
  | nil => intro m _ hm _; exact hm
  | cons x xs ih =>
    intro m hmn hm hr
    simp only [List.foldl_cons]
    have hx : Num x.2 := hr x (by simp)
    apply ih
    · split <;> assumption
    · by_cases hlt : o.lt x.2 m.2 = true
      · simp only [hlt, if_true]
        right
        rcases hm with rfl | hm
        · exact hlt
        · exact L.lt_trans _ _ _ hx hmn h0 hlt hm
      · simp only [hlt]
        exact hm
    · intro v hv; exact hr v (by simp [hv])

/-- The reversed sorted prefix is sorted: an element never is strictly below one that follows it in
the reversed list (= precedes it in the simplex). -/
def RevSorted (o : NOps α) (l : List (Vertex α)) : Prop :=
  l.Pairwise (fun u v => o.lt u.2 v.2 = false)

theorem insRev_sorted {Num : α → Prop} (L : OrdLaws o Num) (x : Vertex α) (l : List (Vertex α))
    (hx : Num x.2) (hl : ∀ v ∈ l, Num v.2) (hs : RevSorted o l) : RevSorted o (insRev o x l) := by
  induction l with
  | nil => simp [insRev, RevSorted]
  | cons y ys ih =>
    have hy : Num y.2 := hl y (by simp)
    unfold RevSorted at hs ⊢
    rw [List.pairwise_cons] at hs
    unfold insRev
    by_cases hlt : o.lt x.2 y.2 = true
    · simp only [hlt, if_true]
      rw [List.pairwise_cons]
      refine ⟨?_, ih (fun v hv => hl v (by simp [hv])) hs.2⟩
      intro v hv
      rcases List.mem_cons.1 ((insRev_perm o x ys).mem_iff.1 hv) with h | h
      · rw [h]; exact L.lt_asymm _ _ hx hy hlt
      · exact hs.1 v h
    · have hlt' : o.lt x.2 y.2 = false := by simpa using hlt
      simp only [hlt', Bool.false_eq_true, if_false]
      rw [List.pairwise_cons]
      refine ⟨?_, List.pairwise_cons.2 hs⟩
      intro v hv
      rcases List.mem_cons.1 hv with h | h
      · rw [h]; exact hlt'
      · exact L.lt_negtrans _ _ _ hx hy (hl v (by simp [h])) hlt' (hs.1 v h)

theorem insRev_getLast? {Num : α → Prop} (L : OrdLaws o Num) (x : Vertex α) (l : List (Vertex α))
    (hx : Num x.2) (hl : ∀ v ∈ l, Num v.2) (hs : RevSorted o l) :
    (insRev o x l).getLast? =
      match l.getLast? with
      | none => some x
      | some m => some (if o.lt x.2 m.2 then x else m) := by
  induction l with
  | nil => simp [insRev]
  | cons y ys ih =>
    have hy : Num y.2 := hl y (by simp)
    unfold RevSorted at hs
    rw [List.pairwise_cons] at hs
    have ih' := ih (fun v hv => hl v (by simp [hv])) hs.2
    unfold insRev
    cases ys with
    | nil =>
      by_cases hlt : o.lt x.2 y.2 = true <;> simp [hlt, insRev]
    | cons z zs =>
      have hlast : (y :: z :: zs).getLast? = (z :: zs).getLast? := by simp [List.getLast?_cons_cons]
      rw [hlast]
      by_cases hlt : o.lt x.2 y.2 = true
      · simp only [hlt, if_true]
        have hne : insRev o x (z :: zs) ≠ [] := by
          intro h
          have := (insRev_perm o x (z :: zs)).length_eq
          rw [h] at this
          simp at this
        rw [List.getLast?_cons_of_ne_nil hne, ih']
      · have hlt' : o.lt x.2 y.2 = false := by simpa using hlt
        simp only [hlt', Bool.false_eq_true, if_false]
        rw [List.getLast?_cons_cons, List.getLast?_cons_cons]
        obtain ⟨m, hm⟩ : ∃ m, (z :: zs).getLast? = some m := ⟨_, List.getLast?_eq_some_getLast (by simp)⟩
        rw [hm]
        have hmem : m ∈ z :: zs := List.mem_of_getLast? hm
        have hym : o.lt y.2 m.2 = false := hs.1 m hmem
        have hxm : o.lt x.2 m.2 = false :=
          L.lt_negtrans _ _ _ hx hy (hl m (by simp [List.mem_cons.1 hmem])) hlt' hym
        simp [hxm]

theorem foldl_insRev_spec {Num : α → Prop} (L : OrdLaws o Num) (s : List (Vertex α)) (v0 : Vertex α)
    (acc : List (Vertex α)) (hs : ∀ v ∈ s, Num v.2) (hacc : ∀ v ∈ acc, Num v.2) (hsorted : RevSorted o acc)
    (hlast : acc.getLast? = some v0) :
    (s.foldl (fun acc x => insRev o x acc) acc).getLast? = some (firstMin o v0 s) := by
  induction s generalizing acc v0 with
  | nil => simpa [firstMin] using hlast
  | cons x xs ih =>
    simp only [List.foldl_cons]
    have hx : Num x.2 := hs x (by simp)
    have h1 := insRev_getLast? L x acc hx hacc hsorted
    rw [hlast] at h1
    have := ih (if o.lt x.2 v0.2 then x else v0) (insRev o x acc) (fun v hv => hs v (by simp [hv]))
      (fun v hv => by
        rcases List.mem_cons.1 ((insRev_perm o x acc).mem_iff.1 hv) with h | h
        · rw [h]; exact hx
        · exact hacc v h)
      (insRev_sorted L x acc hx hacc hsorted) h1
    rw [this]
    simp [firstMin]

/-- **Stability of `sort_param_vecs`**: when no cost is NaN the sorted simplex starts with the *first*
minimum of the unsorted one. -/
theorem sortSimplex_head {Num : α → Prop} (L : OrdLaws o Num) (v0 : Vertex α) (rest : List (Vertex α))
    (hnum : ∀ v ∈ v0 :: rest, Num v.2) :
    (sortSimplex o (v0 :: rest)).head? = some (firstMin o v0 rest) := by
  unfold sortSimplex
  rw [List.head?_reverse]
  simp only [List.foldl_cons]
  exact foldl_insRev_spec L rest v0 (insRev o v0 []) (fun v hv => hnum v (by simp [hv]))
    (fun v hv => by simp [insRev] at hv; rw [hv]; exact hnum v0 (by simp))
    (by simp [insRev, RevSorted]) (by simp [insRev])

end AlphaG.NelderMead
