import AlphaG.Model.Pwb
import AlphaG.Lemmas.Bytes
import AlphaG.Lemmas.PwbMask
import AlphaG.Lemmas.PwbBlocks
import AlphaG.Lemmas.PwbWave
/-
Lemmas for the PWB packet round trip: masks from channel lists, sample bytes, block
concatenation. Core Lean only.
-/
namespace AlphaG.Pwb

/-! ### Masks -/

theorem setBits_succ (m n : Nat) :
    setBits m (n + 1) = setBits m n ++ (if m.testBit n then [n] else []) := by
  unfold setBits
  rw [List.range_succ, List.filter_append]
  by_cases h : m.testBit n = true <;> simp [h]

theorem sum_setBits (m : Nat) : ∀ n, ((setBits m n).map (2 ^ ·)).sum = m % 2 ^ n
  | 0 => by simp [setBits, Nat.mod_one]
  | n + 1 => by
    rw [setBits_succ, List.map_append, List.sum_append, sum_setBits m n, Nat.mod_pow_succ]
    have hb : m.testBit n = decide (m / 2 ^ n % 2 = 1) := Nat.testBit_eq_decide_div_mod_eq
    by_cases h : m / 2 ^ n % 2 = 1
    · simp [hb, h]
    · have h0 : m / 2 ^ n % 2 = 0 := by omega
      simp [hb, h0]

theorem maskOf_chansOf : ∀ (idx : List Nat), (∀ i ∈ idx, i < 79) →
    maskOf (chansOf idx) = (idx.map (2 ^ ·)).sum
  | [], _ => rfl
  | i :: idx, h => by
    obtain ⟨_, c, hc, _, hinv⟩ := readout_left_inv i (h i List.mem_cons_self)
    have ih := maskOf_chansOf idx (fun j hj => h j (List.mem_cons_of_mem _ hj))
    unfold maskOf chansOf at ih ⊢
    rw [List.filterMap_cons, hc]
    simp only [List.map_cons, List.sum_cons, ih, hinv, Nat.add_sub_cancel]

theorem maskOf_setBits (m : Nat) (h : m < 2 ^ 79) : maskOf (chansOf (setBits m 79)) = m := by
  rw [maskOf_chansOf _ (fun i hi => (mem_setBits.1 hi).1), sum_setBits, Nat.mod_eq_of_lt h]

/-! ### Bytes -/

theorem take1 (b : List UInt8) (i : Nat) (h : i < b.length) :
    [UInt8.ofNat (byteAt b i)] = (b.drop i).take 1 := by
  rw [ofNat_byteAt b i h, List.drop_eq_getElem_cons h]; rfl

theorem ofSigned_toSigned (v : Nat) (h : v < 65536) : ofSigned 16 (toSigned 16 v) = v := by
  unfold ofSigned toSigned
  split <;> omega

theorem waveBytes_append (l₁ l₂ : List Int) : waveBytes (l₁ ++ l₂) = waveBytes l₁ ++ waveBytes l₂ := by
  simp [waveBytes]

/-- The bytes of `n` consecutive little-endian `i16` samples read back from a slice. -/
theorem waveBytes_range (b : List UInt8) (o : Nat) : ∀ n, o + 2 * n ≤ b.length →
    waveBytes ((List.range n).map (fun j => toSigned 16 (leAt b (o + 2 * j) 2)))
      = (b.drop o).take (2 * n)
  | 0, _ => by simp [waveBytes]
  | n + 1, h => by
    rw [List.range_succ, List.map_append, waveBytes_append, waveBytes_range b o n (by omega)]
    have hv := leAt_lt b (o + 2 * n) 2
    simp only [List.map_cons, List.map_nil, waveBytes, List.flatMap_cons, List.flatMap_nil,
      List.append_nil]
    rw [ofSigned_toSigned _ (by omega), leBytes_leAt b (o + 2 * n) 2 (by omega),
      show 2 * (n + 1) = 2 * n + 2 by omega, List.take_add, List.drop_drop]

/-- Concatenating per-element encodings that are consecutive `B`-byte windows of `d` gives the
prefix of `d`. -/
theorem flatMap_blocks {α : Type} (f : α → List UInt8) (B : Nat) : ∀ (l : List α) (d : List UInt8),
    (∀ k (hk : k < l.length), f l[k] = (d.drop (B * k)).take B) →
    l.flatMap f = d.take (B * l.length)
  | [], d, _ => by simp
  | x :: xs, d, h => by
    have h0 := h 0 (by simp)
    simp only [List.getElem_cons_zero, Nat.mul_zero, List.drop_zero] at h0
    have ih := flatMap_blocks f B xs (d.drop B) (by
      intro k hk
      have := h (k + 1) (by simpa using hk)
      simp only [List.getElem_cons_succ] at this
      rw [this, List.drop_drop, Nat.mul_succ, Nat.add_comm])
    rw [List.flatMap_cons, h0, ih, List.length_cons, Nat.mul_succ, Nat.add_comm (B * xs.length) B,
      List.take_add]

end AlphaG.Pwb
