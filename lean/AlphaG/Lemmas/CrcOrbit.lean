import AlphaG.Lemmas.Crc
import AlphaG.Lemmas.CrcOrbitA
import AlphaG.Lemmas.CrcOrbitB
import AlphaG.Lemmas.CrcOrbitC
import AlphaG.Lemmas.CrcOrbitD
/-
Two-bit errors: the zero-input map `Z = step · false` of the CRC-32C register does not bring
the state 1 back to 1 within 524 800 steps (the multiplicative order of x modulo the generator
exceeds every codeword length of a PWB chunk: at most 65 540 bytes = 524 320 bits per CRC
region). Proved by composing the 16 kernel-evaluated segments of `CrcOrbitA … D`.
-/
namespace AlphaG.Crc

/-- `zN` iterated `k` times. -/
def zpow : Nat → Nat → Nat
  | 0, s => s
  | k + 1, s => zpow k (zN s)

theorem walk_succ (s n : Nat) : walk s (n + 1) =
    match zN s with
    | 0 => none
    | 1 => none
    | t + 2 => walk (t + 2) n := rfl

theorem walk_spec : ∀ (n s t : Nat), walk s n = some t →
    (∀ k, 1 ≤ k → k ≤ n → zpow k s ≠ 1) ∧ zpow n s = t
  | 0, s, t, h => by
    simp only [walk, Option.some.injEq] at h
    exact ⟨fun k h1 h2 => by omega, h⟩
  | n + 1, s, t, h => by
    rw [walk_succ] at h
    split at h
    · cases h
    · cases h
    · rename_i u hu
      obtain ⟨ih1, ih2⟩ := walk_spec n (u + 2) t h
      refine ⟨fun k h1 h2 => ?_, ?_⟩
      · obtain ⟨j, rfl⟩ : ∃ j, k = j + 1 := ⟨k - 1, by omega⟩
        rw [zpow, hu]
        by_cases hj : j = 0
        · subst hj; simp only [zpow]; omega
        · exact ih1 j (by omega) (by omega)
      · rw [zpow, hu]; exact ih2

theorem walk_trans : ∀ {m n s t u : Nat}, walk s m = some t → walk t n = some u →
    walk s (m + n) = some u
  | 0, n, s, t, u, h1, h2 => by
    simp only [walk, Option.some.injEq] at h1
    rw [Nat.zero_add, h1]; exact h2
  | m + 1, n, s, t, u, h1, h2 => by
    rw [show m + 1 + n = (m + n) + 1 by omega, walk_succ]
    rw [walk_succ] at h1
    split
    · rename_i h0; rw [h0] at h1; cases h1
    · rename_i h0; rw [h0] at h1; cases h1
    · rename_i v hv; rw [hv] at h1; exact walk_trans h1 h2

theorem orbit_chain1 : walk 1 (32800 + 32800) = some 2767892023 := walk_trans orbit_seg0 orbit_seg1
theorem orbit_chain2 : walk 1 (32800 + 32800 + 32800) = some 1957120046 :=
  walk_trans orbit_chain1 orbit_seg2
theorem orbit_chain3 : walk 1 (32800 + 32800 + 32800 + 32800) = some 2836118092 :=
  walk_trans orbit_chain2 orbit_seg3
theorem orbit_chain4 : walk 1 (32800 + 32800 + 32800 + 32800 + 32800) = some 4241646790 :=
  walk_trans orbit_chain3 orbit_seg4
theorem orbit_chain5 : walk 1 (32800 + 32800 + 32800 + 32800 + 32800 + 32800) = some 4286305882 :=
  walk_trans orbit_chain4 orbit_seg5
theorem orbit_chain6 : walk 1 (32800 + 32800 + 32800 + 32800 + 32800 + 32800 + 32800) = some 3516266544 :=
  walk_trans orbit_chain5 orbit_seg6
theorem orbit_chain7 : walk 1 (32800 + 32800 + 32800 + 32800 + 32800 + 32800 + 32800 + 32800) = some 2712195742 :=
  walk_trans orbit_chain6 orbit_seg7
theorem orbit_chain8 : walk 1 (32800 + 32800 + 32800 + 32800 + 32800 + 32800 + 32800 + 32800 + 32800) = some 3568454447 :=
  walk_trans orbit_chain7 orbit_seg8
theorem orbit_chain9 : walk 1 (32800 + 32800 + 32800 + 32800 + 32800 + 32800 + 32800 + 32800 + 32800 + 32800) = some 2037518023 :=
  walk_trans orbit_chain8 orbit_seg9
theorem orbit_chain10 : walk 1 (32800 + 32800 + 32800 + 32800 + 32800 + 32800 + 32800 + 32800 + 32800 + 32800 + 32800) = some 2360032737 :=
  walk_trans orbit_chain9 orbit_seg10
theorem orbit_chain11 : walk 1 (32800 + 32800 + 32800 + 32800 + 32800 + 32800 + 32800 + 32800 + 32800 + 32800 + 32800 + 32800) = some 1935546039 :=
  walk_trans orbit_chain10 orbit_seg11
theorem orbit_chain12 : walk 1 (32800 + 32800 + 32800 + 32800 + 32800 + 32800 + 32800 + 32800 + 32800 + 32800 + 32800 + 32800 + 32800) = some 1410873889 :=
  walk_trans orbit_chain11 orbit_seg12
theorem orbit_chain13 : walk 1 (32800 + 32800 + 32800 + 32800 + 32800 + 32800 + 32800 + 32800 + 32800 + 32800 + 32800 + 32800 + 32800 + 32800) = some 3673393035 :=
  walk_trans orbit_chain12 orbit_seg13
theorem orbit_chain14 : walk 1 (32800 + 32800 + 32800 + 32800 + 32800 + 32800 + 32800 + 32800 + 32800 + 32800 + 32800 + 32800 + 32800 + 32800 + 32800) = some 3080016191 :=
  walk_trans orbit_chain13 orbit_seg14
theorem orbit_chain15 : walk 1 (32800 + 32800 + 32800 + 32800 + 32800 + 32800 + 32800 + 32800 + 32800 + 32800 + 32800 + 32800 + 32800 + 32800 + 32800 + 32800) = some 1624241081 :=
  walk_trans orbit_chain14 orbit_seg15

/-- The orbit of 1 under the zero-input map avoids 1 for 524 800 steps (Nat level). -/
theorem zpow_ne_one (k : Nat) (h1 : 1 ≤ k) (h2 : k ≤ 524800) : zpow k 1 ≠ 1 :=
  (walk_spec _ 1 _ orbit_chain15).1 k h1 (by omega)

/-! Tie to the `BitVec` register. -/

theorem toNat_step_false (s : BitVec 32) : (step s false).toNat = zN s.toNat := by
  unfold step zN
  rw [BitVec.toNat_xor, BitVec.toNat_ushiftRight]
  have hl : s.getLsbD 0 = decide (s.toNat % 2 = 1) := by
    rw [BitVec.getLsbD, Nat.testBit_zero]
  rw [hl]
  by_cases h : s.toNat % 2 = 1
  · simp [h, POLY]
  · simp [h]

theorem toNat_run_zeros : ∀ (k : Nat) (s : BitVec 32),
    (run s (List.replicate k false)).toNat = zpow k s.toNat
  | 0, s => rfl
  | k + 1, s => by
    rw [List.replicate_succ, run, toNat_run_zeros k, toNat_step_false, zpow]

/-- No return of the state 1 under `k` zero bits, `1 ≤ k ≤ 524 800`. -/
theorem no_return (k : Nat) (h1 : 1 ≤ k) (h2 : k ≤ 524800) :
    run 1#32 (List.replicate k false) ≠ 1#32 := by
  intro h
  have := congrArg BitVec.toNat h
  rw [toNat_run_zeros] at this
  exact zpow_ne_one k h1 h2 this

theorem step_one_true : step 1#32 true = 0#32 := by decide
theorem step_zero_true : step 0#32 true = step 1#32 false := by decide

/-- The only state that a one bit clears is 1. -/
theorem step_true_zero (s : BitVec 32) (h : step s true = 0#32) : s = 1#32 :=
  step_inj s 1#32 true (h.trans step_one_true.symm)

/-- Two-bit detection on bit strings: two ones at distance `k + 1 ≤ 524 800` leave a non-zero
residue. -/
theorem run_zero_two (a k c : Nat) (hk : k + 1 ≤ 524800) :
    run 0#32 (List.replicate a false ++ [true] ++ List.replicate k false ++ [true]
      ++ List.replicate c false) ≠ 0#32 := by
  intro h0
  rw [run_append, run_append, run_append, run_append, run_zeros_zero] at h0
  have h1 := run_zero_inj c _ h0
  simp only [run] at h1
  have h2 := step_true_zero _ h1
  rw [step_zero_true] at h2
  have h3 : run 1#32 (List.replicate (k + 1) false) = 1#32 := by
    rw [List.replicate_succ, run]; exact h2
  exact no_return (k + 1) (by omega) hk h3

end AlphaG.Crc
