import AlphaG.Model.PwbChunks
import AlphaG.Lemmas.Bytes
/-
Lemmas for PWB packet reassembly (C04): the mismatch scans on valid chunks, dense chunk-id
lists, sorted permutations. Core Lean only.
-/
namespace AlphaG.Pwb

theorem ite_panic_eq_ok' {ε α : Type} {c : Prop} [Decidable c] {s : String}
    {rest : Outcome ε α} {p : α} :
    (if c then Outcome.panic s else rest) = Outcome.ok p ↔ ¬c ∧ rest = Outcome.ok p := by
  by_cases h : c <;> simp [h]

theorem noPanic_ite_panic {ε α : Type} {c : Prop} [Decidable c] {s : String}
    {rest : Outcome ε α} (hc : ¬c) (h : NoPanic rest) :
    NoPanic (if c then Outcome.panic s else rest) := by
  simp only [hc, if_false]; exact h

/-! ### Board / chip scans -/

theorem boardOfDevice_some {d : Nat} {t : String × List Nat × Nat} (h : boardOfDevice d = some t) :
    t.2.2 = d := by
  unfold boardOfDevice at h
  have := List.find?_some h
  simpa using this

theorem boardOfDevice_eq_iff {d d' : Nat} (h : (boardOfDevice d).isSome = true) :
    boardOfDevice d = boardOfDevice d' ↔ d = d' := by
  constructor
  · intro e
    obtain ⟨t, ht⟩ := Option.isSome_iff_exists.1 h
    have h1 := boardOfDevice_some ht
    have h2 := boardOfDevice_some (e ▸ ht)
    omega
  · rintro rfl; rfl

theorem boardScan_valid (d0 : Nat) (h0 : (boardOfDevice d0).isSome = true) :
    ∀ cs : List ChunkV, (∀ c ∈ cs, (boardOfDevice c.deviceId).isSome = true) →
      boardScan d0 cs = if ∀ c ∈ cs, c.deviceId = d0 then Scan.clean else Scan.mismatch
  | [], _ => by simp [boardScan]
  | c :: cs, hv => by
    have hc := hv c List.mem_cons_self
    have ih := boardScan_valid d0 h0 cs (fun x hx => hv x (List.mem_cons_of_mem _ hx))
    have hn : ¬((boardOfDevice c.deviceId).isNone = true ∨ (boardOfDevice d0).isNone = true) := by
      simp [Option.isNone_iff_eq_none, Option.isSome_iff_ne_none.1 hc,
        Option.isSome_iff_ne_none.1 h0]
    rw [boardScan, if_neg hn]
    by_cases he : c.deviceId = d0
    · rw [if_neg (by rw [he]; simp), ih]
      simp [he]
    · rw [if_pos (by rw [ne_eq, boardOfDevice_eq_iff hc]; exact he)]
      simp [he]

theorem afterIdOf_eq_iff {a a' : Nat} (h : a ≤ 3) (h' : a' ≤ 3) :
    afterIdOf a = afterIdOf a' ↔ a = a' := by
  unfold afterIdOf; simp [h, h']

theorem chipScan_valid (c0 : Nat) (h0 : c0 ≤ 3) :
    ∀ cs : List ChunkV, (∀ c ∈ cs, c.chip ≤ 3) →
      chipScan c0 cs = if ∀ c ∈ cs, c.chip = c0 then Scan.clean else Scan.mismatch
  | [], _ => by simp [chipScan]
  | c :: cs, hv => by
    have hc := hv c List.mem_cons_self
    have ih := chipScan_valid c0 h0 cs (fun x hx => hv x (List.mem_cons_of_mem _ hx))
    have hn : ¬((afterIdOf c.chip).isNone = true ∨ (afterIdOf c0).isNone = true) := by
      simp [afterIdOf, hc, h0]
    rw [chipScan, if_neg hn]
    by_cases he : c.chip = c0
    · rw [if_neg (by rw [he]; simp), ih]
      simp [he]
    · rw [if_pos (by rw [ne_eq, afterIdOf_eq_iff hc h0]; exact he)]
      simp [he]

/-- All chunks agree on `f` (board or chip): the order-free form of "no mismatch". -/
def Homog (f : ChunkV → Nat) (cs : List ChunkV) : Prop := ∀ c ∈ cs, ∀ d ∈ cs, f c = f d

instance (f : ChunkV → Nat) (cs : List ChunkV) : Decidable (Homog f cs) := by
  unfold Homog; infer_instance

theorem Homog.perm {f : ChunkV → Nat} {l₁ l₂ : List ChunkV} (h : l₁.Perm l₂) :
    Homog f l₁ ↔ Homog f l₂ := by
  unfold Homog
  constructor
  · intro H c hc d hd; exact H c (h.mem_iff.2 hc) d (h.mem_iff.2 hd)
  · intro H c hc d hd; exact H c (h.mem_iff.1 hc) d (h.mem_iff.1 hd)

theorem all_dev0_iff (cs : List ChunkV) (hne : cs ≠ []) :
    (∀ c ∈ cs, c.deviceId = dev0 cs) ↔ Homog (·.deviceId) cs := by
  cases cs with
  | nil => exact absurd rfl hne
  | cons a cs =>
    unfold Homog; simp only [dev0]
    constructor
    · intro H c hc d hd; rw [H c hc, H d hd]
    · intro H c hc; exact H c hc a List.mem_cons_self

theorem all_chip0_iff (cs : List ChunkV) (hne : cs ≠ []) :
    (∀ c ∈ cs, c.chip = chip0 cs) ↔ Homog (·.chip) cs := by
  cases cs with
  | nil => exact absurd rfl hne
  | cons a cs =>
    unfold Homog; simp only [chip0]
    constructor
    · intro H c hc d hd; rw [H c hc, H d hd]
    · intro H c hc; exact H c hc a List.mem_cons_self

/-- On valid chunks the two scans cannot panic and only depend on whether all chunks agree. -/
theorem reassembleWith_valid (cs s : List ChunkV) (hv : ∀ c ∈ cs, c.Valid) (hne : cs ≠ []) :
    reassembleWith cs s =
      if ¬Homog (·.deviceId) cs then .err .deviceIdMismatch
      else if ¬Homog (·.chip) cs then .err .channelIdMismatch
      else reassembleSorted s := by
  have hd0 : (boardOfDevice (dev0 cs)).isSome = true := by
    cases cs with
    | nil => exact absurd rfl hne
    | cons a cs => exact (hv a List.mem_cons_self).1
  have hc0 : chip0 cs ≤ 3 := by
    cases cs with
    | nil => exact absurd rfl hne
    | cons a cs => exact (hv a List.mem_cons_self).2.1
  have hb := boardScan_valid (dev0 cs) hd0 cs (fun c hc => (hv c hc).1)
  have hc := chipScan_valid (chip0 cs) hc0 cs (fun c hc => (hv c hc).2.1)
  have he : cs.isEmpty = false := by cases cs <;> simp_all
  unfold reassembleWith
  rw [he]
  simp only [Bool.false_eq_true, if_false]
  by_cases h1 : ∀ c ∈ cs, c.deviceId = dev0 cs
  · have h1' := (all_dev0_iff cs hne).1 h1
    rw [if_pos h1] at hb
    by_cases h2 : ∀ c ∈ cs, c.chip = chip0 cs
    · have h2' := (all_chip0_iff cs hne).1 h2
      rw [if_pos h2] at hc
      simp [hb, hc, h1', h2']
    · have h2' : ¬Homog (·.chip) cs := fun H => h2 ((all_chip0_iff cs hne).2 H)
      rw [if_neg h2] at hc
      simp [hb, hc, h1', h2']
  · have h1' : ¬Homog (·.deviceId) cs := fun H => h1 ((all_dev0_iff cs hne).2 H)
    rw [if_neg h1] at hb
    simp [hb, h1']

/-! ### Dense id lists -/

theorem idMismatchPos_congr : ∀ (s₁ s₂ : List ChunkV) (i : Nat),
    s₁.map (·.chunkId) = s₂.map (·.chunkId) → idMismatchPos s₁ i = idMismatchPos s₂ i
  | [], [], _, _ => rfl
  | [], _ :: _, _, h => by simp at h
  | _ :: _, [], _, h => by simp at h
  | a :: s₁, b :: s₂, i, h => by
    simp only [List.map_cons, List.cons.injEq] at h
    simp only [idMismatchPos, h.1, idMismatchPos_congr s₁ s₂ (i + 1) h.2]

theorem idMismatchPos_none_iff : ∀ (s : List ChunkV) (i : Nat),
    idMismatchPos s i = none ↔ s.map (·.chunkId) = List.range' i s.length
  | [], i => by simp [idMismatchPos]
  | c :: s, i => by
    simp only [idMismatchPos, List.map_cons, List.length_cons, List.range'_succ, List.cons.injEq]
    by_cases h : c.chunkId = i
    · simp [h, idMismatchPos_none_iff s (i + 1)]
    · simp [h]

theorem idMismatchPos_lt : ∀ (s : List ChunkV) (i p : Nat),
    idMismatchPos s i = some p → i ≤ p ∧ p < i + s.length
  | [], _, _, h => by simp [idMismatchPos] at h
  | c :: s, i, p, h => by
    simp only [idMismatchPos] at h
    by_cases hc : c.chunkId = i
    · simp only [hc, ne_eq, not_true_eq_false, if_false] at h
      have := idMismatchPos_lt s (i + 1) p h
      simp only [List.length_cons]; omega
    · simp only [ne_eq, hc, not_false_eq_true, if_true, Option.some.injEq] at h
      simp only [List.length_cons]; omega

theorem inj_of_nodup_map {α β : Type} (f : α → β) : ∀ (l : List α), (l.map f).Nodup →
    ∀ a ∈ l, ∀ b ∈ l, f a = f b → a = b
  | [], _, _, ha, _, _, _ => by simp at ha
  | x :: l, hn, a, ha, b, hb, hab => by
    simp only [List.map_cons, List.nodup_cons, List.mem_map, not_exists, not_and] at hn
    rcases List.mem_cons.1 ha with rfl | ha'
    · rcases List.mem_cons.1 hb with rfl | hb'
      · rfl
      · exact absurd hab.symm (hn.1 b hb')
    · rcases List.mem_cons.1 hb with rfl | hb'
      · exact absurd hab (hn.1 a ha')
      · exact inj_of_nodup_map f l hn.2 a ha' b hb' hab

/-- Two sorted permutations of a chunk list whose ids are distinct are the same list. -/
theorem sorted_perm_unique (s₁ s₂ : List ChunkV) (hp : s₁.Perm s₂)
    (h₁ : s₁.Pairwise (fun a b => a.chunkId ≤ b.chunkId))
    (h₂ : s₂.Pairwise (fun a b => a.chunkId ≤ b.chunkId))
    (hn : (s₁.map (·.chunkId)).Nodup) : s₁ = s₂ := by
  apply List.Perm.eq_of_pairwise (le := fun a b => a.chunkId ≤ b.chunkId) _ h₁ h₂ hp
  intro a b ha hb hab hba
  exact inj_of_nodup_map (·.chunkId) s₁ hn a ha b (hp.mem_iff.2 hb) (Nat.le_antisymm hab hba)

/-- Sorted permutations have the same id list, whatever the ties. -/
theorem sorted_perm_ids (s₁ s₂ : List ChunkV) (hp : s₁.Perm s₂)
    (h₁ : s₁.Pairwise (fun a b => a.chunkId ≤ b.chunkId))
    (h₂ : s₂.Pairwise (fun a b => a.chunkId ≤ b.chunkId)) :
    s₁.map (·.chunkId) = s₂.map (·.chunkId) := by
  apply List.Perm.eq_of_pairwise (le := fun a b : Nat => a ≤ b) _ _ _ (hp.map _)
  · intro a b _ _ hab hba; exact Nat.le_antisymm hab hba
  · exact List.pairwise_map.2 h₁
  · exact List.pairwise_map.2 h₂

/-- In a dense sorted list every chunk sits at the index given by its id. -/
theorem dense_index (s : List ChunkV) (h : s.map (·.chunkId) = List.range' 0 s.length)
    (c : ChunkV) (hc : c ∈ s) : ∃ hi : c.chunkId < s.length, s[c.chunkId] = c := by
  obtain ⟨i, hi, rfl⟩ := List.mem_iff_getElem.1 hc
  have h1 : (s.map (·.chunkId))[i]'(by simpa using hi) = (List.range' 0 s.length)[i]'(by simpa using hi) := by
    simp only [h]
  simp only [List.getElem_map, List.getElem_range', Nat.zero_add, Nat.one_mul] at h1
  refine ⟨by rw [h1]; exact hi, ?_⟩
  simp only [h1]

theorem dense_getElem_id (s : List ChunkV) (h : s.map (·.chunkId) = List.range' 0 s.length)
    (i : Nat) (hi : i < s.length) : s[i].chunkId = i := by
  have h1 : (s.map (·.chunkId))[i]'(by simpa using hi) = (List.range' 0 s.length)[i]'(by simpa using hi) := by
    simp only [h]
  simpa using h1

end AlphaG.Pwb
