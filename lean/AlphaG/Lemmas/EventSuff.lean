import AlphaG.Lemmas.EventAccept
/-
Sufficiency of the acceptance predicate, first loop of `try_from_banks`: banks that are fine on
their own, with pairwise distinct anode-wire names and at most one TRG bank, pass the loop.
The slot-occupancy test never fires because the wire map is injective (C08 `wire_bijection`).
-/
namespace AlphaG.Event
open AlphaG AlphaG.Generated AlphaG.Maps

variable {α : Type} (ops : Ops α)

theorem a16Row_row : ∀ i, i < 8 → a16Row (alpha16Boards[i]?) = i := by decide

/-- Occupied wire slots belong to recorded bank names. -/
def SlotInv (run : Nat) (st : St α) : Prop :=
  ∀ w, slotTaken st.wire w = true →
    ∃ x ∈ st.wireNames, x.1 < 8 ∧ x.2 < 32 ∧ wirePosition run x.1 x.2 = .ok w

theorem slotTaken_set (a : Array (Option (List α))) (i j : Nat) (v : List α) :
    slotTaken (a.setIfInBounds i (some v)) j = true → j = i ∨ slotTaken a j = true := by
  unfold slotTaken
  rw [Array.getElem?_setIfInBounds]
  by_cases h : i = j
  · intro _; exact Or.inl h.symm
  · simp only [h, if_false]; exact Or.inr

theorem trgOf_of_kind {b : Bank} {nm : BankName.Name}
    (hp : BankName.parseBankName b.1 = .ok nm) (hk : nm.kind = .trg) {p : Trg.Packet}
    (hd : Trg.decode b.2 = .ok p) : trgOf b = some p.timestamp := by
  unfold trgOf; rw [hp]; simp only [hk, hd]

/-- One fine bank passes one iteration. -/
theorem bankStep_suff {run : Nat} {b : Bank} {st : St α} (hf : BankFine run b)
    (hname : ∀ x, wireName b = some x → x ∉ st.wireNames)
    (hts : st.ts.isSome = true → trgOf b = none) (hinv : SlotInv run st) :
    ∃ st', bankStep ops run b st = .ok st' ∧ SlotInv run st'
      ∧ st'.wireNames = st.wireNames ++ (wireName b).toList
      ∧ st'.ts.isSome = (st.ts.isSome || (trgOf b).isSome) := by
  obtain ⟨nm, hnm, hw, hp, ht⟩ := hf
  have hwn := wireName_of_kind hnm
  unfold bankStep
  rw [hnm]
  simp only
  cases hk : nm.kind with
  | adc32 =>
    simp only
    obtain ⟨p, ch, hdec, hch, hid, hcal⟩ := hw hk
    rw [hk] at hwn
    simp only [if_true] at hwn
    have hnot : st.wireNames.contains (nm.board, nm.channel) = false := by
      have := hname _ hwn
      simpa using this
    have htrg : trgOf b = none := trgOf_of_kind_ne hnm (by rw [hk]; decide)
    have hnames : ∀ s : St α, s.wireNames = st.wireNames ++ [(nm.board, nm.channel)] →
        s.wireNames = st.wireNames ++ (wireName b).toList := by
      intro s hs; rw [hs, hwn]; rfl
    unfold wireBank
    rw [hdec]
    simp only
    unfold wirePacket
    rw [hnot, hch]
    simp only [Bool.false_eq_true, if_false, hid, ne_eq, not_true_eq_false]
    by_cases he : p.waveform.isEmpty = true
    · rw [if_pos he]
      refine ⟨_, rfl, ?_, hnames _ rfl, by simp [htrg]⟩
      intro w hw
      obtain ⟨x, hx, hrest⟩ := hinv w hw
      exact ⟨x, List.mem_append.2 (Or.inl hx), hrest⟩
    · rw [if_neg he]
      have hne : p.waveform ≠ [] := by simpa using he
      obtain ⟨w, bl, g, d, hpos, hbl, hg, hd⟩ := hcal hne
      obtain ⟨f1, f2, f3⟩ := adc_facts b.2 p hdec
      -- the packet's (board row, channel) is the name's
      have hsome : (boardOf nm p).isSome = true := by
        unfold boardOf; rw [Option.isSome_iff_exists.1 (f1 hne) |>.choose_spec]; rfl
      have hb8 : nm.board < 8 := by
        have e : alpha16Boards[nm.board]? = boardOf nm p := (Prod.mk.inj hid).1
        rw [← e] at hsome
        have : nm.board < alpha16Boards.length := by
          rcases Nat.lt_or_ge nm.board alpha16Boards.length with h | h
          · exact h
          · rw [List.getElem?_eq_none h] at hsome; cases hsome
        exact this
      have hrow : a16Row (boardOf nm p) = nm.board := by
        rw [← (Prod.mk.inj hid).1]; exact a16Row_row nm.board hb8
      have hchan : ch = nm.channel := (Prod.mk.inj hid).2.symm
      have hc32 : ch < 32 := f2 ch hch
      have hlt : w < 256 := wirePosition_ok_lt run _ ch w (a16Row_lt _) hc32 hpos
      -- the slot is free: another bank on this wire would have the same name
      have hfree : slotTaken st.wire w = false := by
        cases hs : slotTaken st.wire w with
        | false => rfl
        | true =>
          obtain ⟨x, hx, hx8, hx32, hxpos⟩ := hinv w hs
          have hm : wireMapExists run := by
            by_cases hm : wireMapExists run
            · exact hm
            · obtain ⟨e, he⟩ := wire_no_map_errors run hm x.1 x.2
              rw [he] at hxpos; cases hxpos
          have := (Maps.wire_bijection run hm).inj x.1 x.2 (a16Row (boardOf nm p)) ch w hx8 hx32
            (a16Row_lt _) hc32 hxpos hpos
          rw [hrow, hchan] at this
          have hxe : x = (nm.board, nm.channel) := Prod.ext this.1 this.2
          rw [hxe] at hx
          exact absurd hx (hname _ hwn)
      unfold wireStore
      rw [hpos]
      simp only
      rw [need_eq (decide_eq_true (show w < nWires from hlt))]
      have hfree' : slotTaken (st.wire) w = false := hfree
      simp only [hfree', Bool.false_eq_true, if_false, hbl, hg, hd]
      rw [need_eq (subFitsI32_of_range bl _ (wireBaseline_range run w bl hbl)
        (fun v hv => f3 v (List.mem_of_mem_drop hv)))]
      have old : ∀ w', slotTaken st.wire w' = true →
          ∃ x ∈ st.wireNames ++ [(nm.board, nm.channel)], x.1 < 8 ∧ x.2 < 32
            ∧ wirePosition run x.1 x.2 = .ok w' := by
        intro w' h'
        obtain ⟨x, hx, hrest⟩ := hinv w' h'
        exact ⟨x, List.mem_append.2 (Or.inl hx), hrest⟩
      by_cases hemp : (calibrate ops bl (ops.ofBits g) d p.waveform).isEmpty = true
      · rw [if_pos hemp]
        exact ⟨_, rfl, old, hnames _ rfl, by simp [htrg]⟩
      · rw [if_neg hemp]
        refine ⟨_, rfl, ?_, hnames _ rfl, by simp [htrg]⟩
        intro w' hw'
        rcases slotTaken_set _ _ _ _ hw' with e | h'
        · subst e
          refine ⟨(nm.board, nm.channel), by simp, hb8, by rw [← hchan]; exact hc32, ?_⟩
          rw [← hrow, ← hchan]; exact hpos
        · exact old w' h'
  | padwing =>
    simp only
    obtain ⟨c, hdec, hbd⟩ := hp hk
    have hv := C01.decoded_chunk_valid b.2 c hdec
    have hb : (Chunk.boardOfDeviceId c.deviceId).isSome = true := hv.1
    have ha : (Chunk.afterOfNat c.channelId).isSome = true :=
      (Chunk.afterOfNat_some_iff _).2 hv.2.1
    unfold padwingBank
    rw [hdec]
    simp only
    rw [need_eq hb, need_eq ha, if_neg (by simpa using hbd)]
    have h1 : wireName b = none := by rw [hwn, hk]; simp
    have h2 : trgOf b = none := trgOf_of_kind_ne hnm (by rw [hk]; decide)
    exact ⟨_, rfl, hinv, by simp [h1], by simp [h2]⟩
  | trg =>
    simp only
    obtain ⟨p, hdec⟩ := ht hk
    have h2 := trgOf_of_kind hnm hk hdec
    have hnone : st.ts.isSome = false := by
      cases hs : st.ts.isSome with
      | false => rfl
      | true => rw [hts hs] at h2; cases h2
    have h1 : wireName b = none := by rw [hwn, hk]; simp
    unfold trgBank
    rw [hdec]
    simp only [hnone, Bool.false_eq_true, if_false]
    exact ⟨_, rfl, hinv, by simp [h1], by simp [h2]⟩
  | adc16 =>
    have h1 : wireName b = none := by rw [hwn, hk]; simp
    have h2 : trgOf b = none := trgOf_of_kind_ne hnm (by rw [hk]; decide)
    exact ⟨_, rfl, hinv, by simp [h1], by simp [h2]⟩
  | trb3 =>
    have h1 : wireName b = none := by rw [hwn, hk]; simp
    have h2 : trgOf b = none := trgOf_of_kind_ne hnm (by rw [hk]; decide)
    exact ⟨_, rfl, hinv, by simp [h1], by simp [h2]⟩
  | mcvx =>
    have h1 : wireName b = none := by rw [hwn, hk]; simp
    have h2 : trgOf b = none := trgOf_of_kind_ne hnm (by rw [hk]; decide)
    exact ⟨_, rfl, hinv, by simp [h1], by simp [h2]⟩

theorem bankLoop_suff {run : Nat} : ∀ (rest : List Bank) (st : St α),
    (∀ b ∈ rest, BankFine run b) →
    (rest.filterMap wireName).Nodup → (∀ x ∈ rest.filterMap wireName, x ∉ st.wireNames) →
    ((if st.ts.isSome then 1 else 0) + (rest.filterMap trgOf).length ≤ 1) →
    SlotInv run st → ∃ st', bankLoop ops run rest st = .ok st'
  | [], st, _, _, _, _, _ => ⟨st, rfl⟩
  | b :: bs, st, hf, hnd, hnew, hts, hinv => by
    have hb := hf b List.mem_cons_self
    have hname : ∀ x, wireName b = some x → x ∉ st.wireNames := by
      intro x hx
      exact hnew x (by simp [List.filterMap, hx])
    have htsb : st.ts.isSome = true → trgOf b = none := by
      intro hs
      cases ht : trgOf b with
      | none => rfl
      | some t =>
        simp only [hs, if_true, List.filterMap, ht, List.length_cons] at hts
        omega
    obtain ⟨st1, h1, i1, n1, t1⟩ := bankStep_suff ops hb hname htsb hinv
    have hnd' : (bs.filterMap wireName).Nodup ∧ ∀ x, wireName b = some x → x ∉ bs.filterMap wireName := by
      cases hx : wireName b with
      | none =>
        simp only [List.filterMap, hx] at hnd
        exact ⟨hnd, fun _ h => by cases h⟩
      | some x =>
        simp only [List.filterMap, hx, List.nodup_cons] at hnd
        exact ⟨hnd.2, fun y hy => by cases hy; exact hnd.1⟩
    obtain ⟨st', h2⟩ := bankLoop_suff bs st1 (fun c hc => hf c (List.mem_cons_of_mem _ hc)) hnd'.1
      (by
        intro x hx
        rw [n1, List.mem_append]
        rintro (h | h)
        · refine hnew x ?_ h
          cases hw : wireName b with
          | none => simpa [List.filterMap, hw] using hx
          | some y => simp only [List.filterMap, hw]; exact List.mem_cons_of_mem _ hx
        · cases hw : wireName b with
          | none => rw [hw] at h; cases h
          | some y =>
            rw [hw] at h
            simp only [Option.toList, List.mem_singleton] at h
            subst h
            exact hnd'.2 x hw hx)
      (by
        cases ht : trgOf b with
        | none =>
          simp only [List.filterMap, ht] at hts
          rw [t1, ht]; simpa using hts
        | some t =>
          simp only [List.filterMap, ht, List.length_cons] at hts
          rw [t1, ht]
          simp only [Option.isSome_some, Bool.or_true, if_true]
          split at hts <;> omega)
      i1
    exact ⟨st', by unfold bankLoop; rw [h1]; exact h2⟩

end AlphaG.Event
