import AlphaG.Lemmas.EventSuffPad
/-
`try_from_banks` succeeds exactly on the accepted bank lists, for every iteration order of the
chunk map; the acceptance predicate does not depend on the order of the banks.
-/
namespace AlphaG.Event
open AlphaG AlphaG.Generated AlphaG.Maps

variable {α : Type} (ops : Ops α)

theorem groupFine_keyValid {run : Nat} {g : Group} (h : GroupFine run g) : KeyValid g.1 := by
  obtain ⟨p, hp, hk1, hk2, _⟩ := h
  have hdec := Pwb.reassemble_ok_eq_direct g.2 p hp
  have hlt := (pwb_facts _ p hdec).1
  have ha : ∃ a, Chunk.afterOfNat p.afterId = some a := by
    have := (Chunk.afterOfNat_some_iff p.afterId).2 (by omega)
    exact Option.isSome_iff_exists.1 this
  obtain ⟨a, ha⟩ := ha
  refine ⟨packetBoard p, a, ?_, packetBoard_mem hdec⟩
  exact Prod.ext hk1.symm (by rw [← hk2, ha])

theorem slotInv_init (run : Nat) : SlotInv run (St.init : St α) := by
  intro w hw
  exfalso
  simp only [St.init, slotTaken, Array.getElem?_replicate] at hw
  split at hw <;> simp at hw

/-- Accepted bank lists are built successfully, in every iteration order of the chunk map. -/
theorem ok_of_accepts {run : Nat} {banks : List Bank} (h : Accepts run banks)
    (order : GroupOrder) : ∃ ev : Event α, buildEventWith ops order run banks = .ok ev := by
  obtain ⟨st, hst⟩ := bankLoop_suff ops banks (St.init : St α) h.fine h.names
    (fun _ _ hx => by cases hx) (by simp [St.init, h.trg]) (slotInv_init run)
  obtain ⟨hpad, hg⟩ := bankLoop_groups ops banks St.init st hst
  have hgs : st.groups = groupsOf banks := by rw [hg]; rfl
  have hts : ∃ t, st.ts = some t := by
    have := bankLoop_tsInv ops banks St.init st [] hst (Or.inl ⟨rfl, rfl⟩)
    rw [List.nil_append] at this
    rcases this with ⟨h4, _⟩ | ⟨t, _, h5⟩
    · have := h.trg; rw [h4] at this; cases this
    · exact ⟨t, h5⟩
  obtain ⟨t, hts⟩ := hts
  have hperm := order.perm st.groups
  have hfine : ∀ g ∈ order.f st.groups, GroupFine run g := by
    intro g hg'
    exact h.groups g (hgs ▸ hperm.mem_iff.1 hg')
  have hkeys : ((order.f st.groups).map (·.1)).Nodup := by
    have := (groupsOf_ok banks).nodup
    rw [← hgs] at this
    exact (hperm.map _).nodup_iff.2 this
  have hrc : ((order.f st.groups).map (fun g => (keyRow g.1, keyChip g.1))).Nodup := by
    have e : (order.f st.groups).map (fun g => (keyRow g.1, keyChip g.1))
        = ((order.f st.groups).map (·.1)).map (fun k => (keyRow k, keyChip k)) := by
      rw [List.map_map]; rfl
    rw [e]
    refine nodup_map_of_inj_on _ _ ?_ hkeys
    intro k hk k' hk' e
    obtain ⟨g, hg1, rfl⟩ := List.mem_map.1 hk
    obtain ⟨g', hg1', rfl⟩ := List.mem_map.1 hk'
    exact key_rc_inj (groupFine_keyValid (hfine g hg1)) (groupFine_keyValid (hfine g' hg1')) e
  obtain ⟨pad, hp⟩ := groupLoop_suff ops (order.f st.groups) st.pad [] hfine hrc
    (fun _ ht => by cases ht) (by rw [hpad]; exact padSlotInv_init run)
  refine ⟨{ wire := st.wire, pad := pad, ts := t }, ?_⟩
  unfold buildEventWith
  rw [hst]
  simp only
  unfold finish
  rw [hp]
  simp only [hts]

/-- **Acceptance characterises success**, for every iteration order of the chunk map. -/
theorem ok_iff_accepts (order : GroupOrder) (run : Nat) (banks : List Bank) :
    (∃ ev : Event α, buildEventWith ops order run banks = .ok ev) ↔ Accepts run banks :=
  ⟨fun ⟨_, h⟩ => accepts_of_ok ops h, fun h => ok_of_accepts ops h order⟩

/-! ### The acceptance predicate is invariant under permutations of the banks -/

theorem chunkOf_valid {b : Bank} {k : Key} {c : Pwb.ChunkV} (h : chunkOf b = some (k, c)) :
    c.Valid := by
  unfold chunkOf at h
  split at h
  · rename_i nm _
    split at h
    · split at h
      · rename_i c0 hc0
        cases h
        exact C01.decoded_chunk_valid b.2 c0 hc0
      · cases h
    · cases h
  · cases h

theorem chunksFor_valid (banks : List Bank) (k : Key) :
    ∀ c ∈ chunksFor k (banks.filterMap chunkOf), c.Valid := by
  intro c hc
  unfold chunksFor at hc
  obtain ⟨kc, hkc, rfl⟩ := List.mem_map.1 hc
  obtain ⟨b, _, hb⟩ := List.mem_filterMap.1 (List.mem_filter.1 hkc).1
  exact chunkOf_valid (k := kc.1) (c := kc.2) hb

theorem chunksFor_perm (k : Key) {l₁ l₂ : List (Key × Pwb.ChunkV)} (h : l₁.Perm l₂) :
    (chunksFor k l₁).Perm (chunksFor k l₂) := (h.filter _).map _

/-- For permuted bank lists the groups correspond: same keys, each group's chunks permuted. -/
theorem groupsOf_perm {banks₁ banks₂ : List Bank} (h : banks₁.Perm banks₂) {g : Group}
    (hg : g ∈ groupsOf banks₂) :
    ∃ g' ∈ groupsOf banks₁, g'.1 = g.1 ∧ g'.2.Perm g.2 ∧ ∀ c ∈ g'.2, c.Valid := by
  have ok1 := groupsOf_ok banks₁
  have ok2 := groupsOf_ok banks₂
  have hk := h.filterMap chunkOf
  have hkey : g.1 ∈ (banks₁.filterMap chunkOf).map (·.1) := by
    have : g.1 ∈ (banks₂.filterMap chunkOf).map (·.1) :=
      (ok2.keys g.1).1 (List.mem_map.2 ⟨g, hg, rfl⟩)
    exact (hk.map _).mem_iff.2 this
  refine ⟨(g.1, chunksFor g.1 (banks₁.filterMap chunkOf)), ok1.mem_of_key hkey, rfl, ?_,
    chunksFor_valid banks₁ g.1⟩
  rw [ok2.chunks_eq hg]
  exact chunksFor_perm g.1 hk

theorem groupFine_congr {run : Nat} {g g' : Group} (hk : g'.1 = g.1) (hp : g'.2.Perm g.2)
    (hv : ∀ c ∈ g'.2, c.Valid) (h : GroupFine run g') : GroupFine run g := by
  obtain ⟨p, hp1, h2, h3, h4⟩ := h
  refine ⟨p, ?_, by rw [← hk]; exact h2, by rw [← hk]; exact h3, by rw [← hk]; exact h4⟩
  rw [← Pwb.reassemble_perm_eq g'.2 g.2 hv hp]; exact hp1

theorem accepts_perm {run : Nat} {banks₁ banks₂ : List Bank} (h : banks₁.Perm banks₂)
    (ha : Accepts run banks₁) : Accepts run banks₂ := by
  refine ⟨fun b hb => ha.fine b (h.mem_iff.2 hb), (h.filterMap _).nodup_iff.1 ha.names, ?_, ?_⟩
  · rw [← (h.filterMap trgOf).length_eq]; exact ha.trg
  · intro g hg
    obtain ⟨g', hg', hk, hp, hv⟩ := groupsOf_perm h hg
    exact groupFine_congr hk hp hv (ha.groups g' hg')

end AlphaG.Event
