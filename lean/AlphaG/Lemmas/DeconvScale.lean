import AlphaG.Lemmas.DeconvField
/-
`deconv_scale`: "multiplying every calibrated sample of an event by a power of two multiplies
every recovered amplitude by exactly that factor while changing no time/index".

Stated for ANY carrier `Ops α` and any pair of maps `σ` (the scaling of samples/amplitudes) and
`σ2` (the induced scaling of sums of squares) satisfying the homogeneity laws `HomogCore` (all
arithmetic laws) / `Homog` (`HomogCore` plus `σ2 (+∞) = +∞`). Signals are `List`s, so "changing no
time/index" is the fact that results are related by the elementwise `List.map σ`.

For `f64`, `σ = (2^k * ·)`, `σ2 = (2^(2k) * ·)`: every law of `Homog` holds as long as no
operation over/underflows (multiplication by a power of two is exact, commutes with correctly
rounded `- * /`, with `min`, with comparisons against `0` and with each other; `4^k·∞ = ∞`). That
is an *assumption* at this level (the carrier has no laws); the harness tests the statement on the
implementation. For an exact ordered field the laws are proved below (`homog_of_pos`), except the
`inf` law: a field has no `+∞`, so the field-level statement `deconv_scale_field` has an explicit
hypothesis about `top` instead.
-/
namespace AlphaG.Deconv
open Lean Grind Std

/-- Map the value of an `Outcome`, keeping `err`/`panic` (same panic site) as they are. -/
def omap {ε β γ : Type} (f : β → γ) : Outcome ε β → Outcome ε γ
  | .ok a => .ok (f a)
  | .err e => .err e
  | .panic s => .panic s

@[simp] theorem omap_ok {ε β γ : Type} (f : β → γ) (a : β) :
    omap f (.ok a : Outcome ε β) = .ok (f a) := rfl
@[simp] theorem omap_err {ε β γ : Type} (f : β → γ) (e : ε) :
    omap f (.err e : Outcome ε β) = .err e := rfl
@[simp] theorem omap_panic {ε β γ : Type} (f : β → γ) (s : String) :
    omap f (.panic s : Outcome ε β) = .panic s := rfl

/-- The homogeneity laws used by `nn_greedy_deconvolution` and by the comparison of
`ls_deconvolution`, except the one about `f64::INFINITY`. Which Rust operation needs which law:
* `zero`: `vec![0.0; signal.len()]` (the initial `input`), and the `0.0` padding of `y_matrix`;
* `sub_mul`: `*s -= val * r` with `val` scaled and the response `r` *not* scaled;
* `div`: `s / r` (residual sample over response sample);
* `min`: `.reduce(f64::min)`;
* `nonneg`: `**x >= 0.0` (the search for the last non-negative sample of the window);
* `sq`: `x.powi(2)`;
* `add2`, `sumInit`: `.sum()` of the squares (`sumInit` is the start value of the sum);
* `lt2`: `residual < best_residual` in `ls_deconvolution` (not needed by `deconv_scale_nn`,
  only by `deconv_scale`). -/
structure HomogCore {α : Type} (o : Ops α) (σ σ2 : α → α) : Prop where
  zero : σ o.zero = o.zero
  sub_mul : ∀ a v r, o.sub (σ a) (o.mul (σ v) r) = σ (o.sub a (o.mul v r))
  div : ∀ a r, o.div (σ a) r = σ (o.div a r)
  min : ∀ a b, o.min (σ a) (σ b) = σ (o.min a b)
  nonneg : ∀ a, o.le o.zero (σ a) = o.le o.zero a
  sq : ∀ a, o.mul (σ a) (σ a) = σ2 (o.mul a a)
  add2 : ∀ a b, o.add (σ2 a) (σ2 b) = σ2 (o.add a b)
  sumInit : σ2 o.sumInit = o.sumInit
  lt2 : ∀ a b, o.lt (σ2 a) (σ2 b) = o.lt a b

/-- `HomogCore` plus the law for `let mut best_residual = f64::INFINITY` (true in IEEE
arithmetic: `c²·∞ = ∞` for `c ≠ 0`). -/
structure Homog {α : Type} (o : Ops α) (σ σ2 : α → α) : Prop extends HomogCore o σ σ2 where
  inf : σ2 o.inf = o.inf

variable {α : Type} {o : Ops α} {σ σ2 : α → α}

/-! ### The pieces of one loop step -/

theorem window_map (σ : α → α) (res : List α) (i off la : Nat) :
    window (res.map σ) i off la = (window res i off la).map σ := by
  simp [window, List.map_drop, List.map_take]

theorem nonneg_comp (h : HomogCore o σ σ2) : o.nonneg ∘ σ = o.nonneg := by
  funext a; simp [Ops.nonneg, h.nonneg]

theorem any_nonneg_map (h : HomogCore o σ σ2) (w : List α) :
    (w.map σ).any o.nonneg = w.any o.nonneg := by
  rw [List.any_map, nonneg_comp h]

theorem lastNonneg_map (h : HomogCore o σ σ2) (w : List α) :
    lastNonneg o (w.map σ) = lastNonneg o w := by
  simp only [lastNonneg, ← List.map_reverse, List.findIdx?_map, nonneg_comp h, List.length_map]

theorem foldl_min_map (h : HomogCore o σ σ2) (xs : List α) (x : α) :
    (xs.map σ).foldl o.min (σ x) = σ (xs.foldl o.min x) := by
  induction xs generalizing x with
  | nil => rfl
  | cons y ys ih => simp only [List.map_cons, List.foldl_cons, h.min, ih]

theorem zipWith_div_map (h : HomogCore o σ σ2) (w rw : List α) :
    List.zipWith o.div (w.map σ) rw = (List.zipWith o.div w rw).map σ := by
  induction w generalizing rw with
  | nil => simp
  | cons a w ih => cases rw <;> simp [h.div, ih]

theorem stepVal_map (h : HomogCore o σ σ2) (w rw : List α) :
    stepVal o (w.map σ) rw = σ (stepVal o w rw) := by
  unfold stepVal
  rw [zipWith_div_map h]
  cases List.zipWith o.div w rw with
  | nil => simp [h.zero]
  | cons x xs => simp only [List.map_cons]; exact foldl_min_map h xs x

theorem subScaled_map (h : HomogCore o σ σ2) (v : α) (ss rs : List α) :
    subScaled o (σ v) (ss.map σ) rs = (subScaled o v ss rs).map σ := by
  induction ss generalizing rs with
  | nil => cases rs <;> simp [subScaled]
  | cons s ss ih => cases rs <;> simp [subScaled, ih, h.sub_mul]

theorem applyAt_map (h : HomogCore o σ σ2) (res resp : List α) (i : Nat) (v : α) :
    applyAt o (res.map σ) resp i (σ v) = (applyAt o res resp i v).map σ := by
  simp only [applyAt, List.map_append, List.map_take, List.map_drop, ← subScaled_map h]

/-! ### The two loops -/

/-- Elementwise map of the loop state `(residual, input)`. -/
def mapPair (σ : α → α) (p : List α × List α) : List α × List α := (p.1.map σ, p.2.map σ)

theorem fast_map (h : HomogCore o σ σ2) (resp : List α) (off la i : Nat) (res inp : List α) :
    fast o resp off la i (res.map σ) (inp.map σ) = mapPair σ (fast o resp off la i res inp) := by
  fun_induction fast o resp off la i res inp with
  | case1 i res inp hb k hk ih =>
    rw [fast.eq_1 o resp off la i (res.map σ)]
    have hb' : i + off + la ≤ (res.map σ).length := by simpa using hb
    simp only [dif_pos hb', window_map, lastNonneg_map h, hk]
    exact ih
  | case2 i res inp hb hnone ih =>
    rw [fast.eq_1 o resp off la i (res.map σ)]
    have hb' : i + off + la ≤ (res.map σ).length := by simpa using hb
    simp only [dif_pos hb', window_map, lastNonneg_map h, hnone, stepVal_map h, applyAt_map h,
      ← List.map_set]
    exact ih
  | case3 i res inp hb =>
    rw [fast.eq_1 o resp off la i (res.map σ)]
    have hb' : ¬ i + off + la ≤ (res.map σ).length := by simpa using hb
    simp only [dif_neg hb', mapPair]

theorem naive_map (h : HomogCore o σ σ2) (resp : List α) (off la i : Nat) (res inp : List α) :
    naive o resp off la i (res.map σ) (inp.map σ) = mapPair σ (naive o resp off la i res inp) := by
  fun_induction naive o resp off la i res inp with
  | case1 i res inp hb hany ih =>
    rw [naive.eq_1 o resp off la i (res.map σ)]
    have hb' : i + off + la ≤ (res.map σ).length := by simpa using hb
    simp only [dif_pos hb', window_map, any_nonneg_map h, hany, if_true]
    exact ih
  | case2 i res inp hb hany ih =>
    rw [naive.eq_1 o resp off la i (res.map σ)]
    have hb' : i + off + la ≤ (res.map σ).length := by simpa using hb
    simp only [dif_pos hb', window_map, any_nonneg_map h, hany, stepVal_map h, applyAt_map h,
      ← List.map_set]
    exact ih
  | case3 i res inp hb =>
    rw [naive.eq_1 o resp off la i (res.map σ)]
    have hb' : ¬ i + off + la ≤ (res.map σ).length := by simpa using hb
    simp only [dif_neg hb', mapPair]

theorem loopResult_map (h : HomogCore o σ σ2) (b : Bool) (signal resp : List α) (off la : Nat) :
    loopResult o b (signal.map σ) resp off la = mapPair σ (loopResult o b signal resp off la) := by
  have hz : List.replicate (signal.map σ).length o.zero
      = (List.replicate signal.length o.zero).map σ := by
    simp [List.map_replicate, h.zero]
  unfold loopResult
  rw [hz]
  cases b
  · simp only [Bool.false_eq_true, if_false]; exact naive_map h ..
  · simp only [if_true]; exact fast_map h ..

theorem sumSq_map_aux (h : HomogCore o σ σ2) (res : List α) (acc : α) :
    (res.map σ).foldl (fun acc x => o.add acc (o.mul x x)) (σ2 acc)
      = σ2 (res.foldl (fun acc x => o.add acc (o.mul x x)) acc) := by
  induction res generalizing acc with
  | nil => rfl
  | cons x xs ih => simp only [List.map_cons, List.foldl_cons, h.sq, h.add2, ih]

theorem sumSq_map (h : HomogCore o σ σ2) (res : List α) :
    sumSq o (res.map σ) = σ2 (sumSq o res) := by
  unfold sumSq
  conv => lhs; rw [← h.sumInit]
  exact sumSq_map_aux h res o.sumInit

/-- How the result triple `(residual vector, sum of squares, input)` is scaled. -/
def mapTriple (σ σ2 : α → α) (t : List α × α × List α) : List α × α × List α :=
  (t.1.map σ, σ2 t.2.1, t.2.2.map σ)

/-- `nn_greedy_deconvolution` (either loop) is homogeneous: same panics; residual vector and
recovered input scaled elementwise (so no index changes), sum of squares scaled by `σ2`. -/
theorem deconv_scale_nn (h : HomogCore o σ σ2) (b : Bool) (signal resp : List α) (off la : Nat) :
    nnGreedy o b (signal.map σ) resp off la
      = omap (mapTriple σ σ2) (nnGreedy o b signal resp off la) := by
  unfold nnGreedy
  simp only [List.length_map]
  split
  · rfl
  split
  · rfl
  split
  · rfl
  split
  · rfl
  simp only [omap_ok, mapTriple, loopResult_map h, mapPair, sumSq_map h]

/-! ### `ls_deconvolution` -/

theorem lsLoop_scale (h : HomogCore o σ σ2) (b : Bool) (signal resp : List α)
    (g : List (Nat × Nat)) (r : α) (best : List α) :
    lsLoop o b (signal.map σ) resp g (σ2 r) (best.map σ)
      = omap (List.map σ) (lsLoop o b signal resp g r best) := by
  induction g generalizing r best with
  | nil => rfl
  | cons p rest ih =>
    obtain ⟨off, la⟩ := p
    simp only [lsLoop, deconv_scale_nn h]
    cases hnn : nnGreedy o b signal resp off la with
    | ok t =>
      obtain ⟨res, s, inp⟩ := t
      simp only [omap_ok, mapTriple, h.lt2]
      split
      · exact ih s inp
      · exact ih r best
    | err e => rfl
    | panic s => rfl

/-- `ls_deconvolution` is homogeneous: scaling every sample of the signal by `σ` scales every
recovered amplitude by `σ` and changes no index (and panics at the same site if at all). -/
theorem deconv_scale (h : Homog o σ σ2) (b : Bool) (signal resp : List α)
    (offLo offHi laLo laHi : Nat) :
    lsDeconvWith o b (signal.map σ) resp offLo offHi laLo laHi
      = omap (List.map σ) (lsDeconvWith o b signal resp offLo offHi laLo laHi) := by
  unfold lsDeconvWith
  have := lsLoop_scale h.toHomogCore b signal resp (grid offLo offHi laLo laHi) o.inf []
  rw [h.inf] at this
  exact this

theorem deconv_scale_ls (h : Homog o σ σ2) (signal resp : List α) (offLo offHi laLo laHi : Nat) :
    lsDeconv o (signal.map σ) resp offLo offHi laLo laHi
      = omap (List.map σ) (lsDeconv o signal resp offLo offHi laLo laHi) :=
  deconv_scale h true signal resp offLo offHi laLo laHi

theorem deconv_scale_pad (h : Homog o σ σ2) (padResp signal : List α) :
    padDeconv o padResp (signal.map σ) = omap (List.map σ) (padDeconv o padResp signal) :=
  deconv_scale h true signal padResp 3 5 7 12

theorem deconv_scale_wire (h : Homog o σ σ2) (wireResp signal : List α) :
    wireDeconv o wireResp (signal.map σ) = omap (List.map σ) (wireDeconv o wireResp signal) :=
  deconv_scale h true signal wireResp 0 1 3 12

/-! ### A block of wires -/

theorem sequence_omap {ε β γ : Type} (f : β → γ) (l : List (Outcome ε β)) :
    sequence (l.map (omap f)) = omap (List.map f) (sequence l) := by
  induction l with
  | nil => rfl
  | cons x xs ih =>
    cases x with
    | ok a =>
      simp only [List.map_cons, omap_ok, sequence, ih]
      cases sequence xs <;> rfl
    | err e => rfl
    | panic s => rfl

theorem maxLen_map (σ : α → α) (signals : List (List α)) :
    maxLen (signals.map (List.map σ)) = maxLen signals := by
  induction signals with
  | nil => rfl
  | cons s ss ih => simp [maxLen, ih]

/-- `y_matrix` of the scaled signals is `σ` of `y_matrix` entrywise (`σ 0.0 = 0.0` for the
padding of short channels). -/
theorem yMatrix_map (h : HomogCore o σ σ2) (signals : List (List α)) :
    yMatrix o (signals.map (List.map σ)) = fun r c => σ (yMatrix o signals r c) := by
  funext r c
  simp only [yMatrix, List.getD_eq_getElem?_getD, List.getElem?_map]
  cases signals[c]? with
  | none => simp [h.zero]
  | some s => cases hs : s[r]? <;> simp [hs, h.zero]

/-- The per-block wire deconvolution is homogeneous provided the linear solve (`faer`'s in-place
`Y·A⁻¹`, a parameter of the model) commutes with `σ` entrywise. -/
theorem deconv_scale_wireSignals (h : Homog o σ σ2)
    (cholSolve : Nat → Nat → (Nat → Nat → α) → (Nat → Nat → α))
    (hc : ∀ i j y r c, cholSolve i j (fun r c => σ (y r c)) r c = σ (cholSolve i j y r c))
    (wireResp : List α) (signals : List (List α)) :
    wireSignalsDeconv o cholSolve wireResp (signals.map (List.map σ))
      = omap (List.map (List.map σ)) (wireSignalsDeconv o cholSolve wireResp signals) := by
  unfold wireSignalsDeconv
  simp only [List.isEmpty_map, List.length_map, maxLen_map, yMatrix_map h.toHomogCore, hc]
  split
  · rfl
  · rw [← sequence_omap, List.map_map]
    congr 1
    apply List.map_congr_left
    intro column _
    simp only [Function.comp]
    rw [← deconv_scale_wire h, List.map_map]
    rfl

/-- Scaling of one block `[(wire, signal)]`: the wire numbers are untouched. -/
def mapBlock (σ : α → α) (block : List (Nat × List α)) : List (Nat × List α) :=
  block.map fun p => (p.1, p.2.map σ)

theorem deconv_scale_wires (h : Homog o σ σ2)
    (cholSolve : Nat → Nat → (Nat → Nat → α) → (Nat → Nat → α))
    (hc : ∀ i j y r c, cholSolve i j (fun r c => σ (y r c)) r c = σ (cholSolve i j y r c))
    (wireResp : List α) (block : List (Nat × List α)) :
    wireRangeDeconv o cholSolve wireResp (mapBlock σ block)
      = omap (mapBlock σ) (wireRangeDeconv o cholSolve wireResp block) := by
  unfold wireRangeDeconv
  have h1 : (mapBlock σ block).map Prod.snd = (block.map Prod.snd).map (List.map σ) := by
    simp [mapBlock, List.map_map, Function.comp_def]
  have h2 : (mapBlock σ block).map Prod.fst = block.map Prod.fst := by
    simp [mapBlock, List.map_map, Function.comp_def]
  rw [h1, h2, deconv_scale_wireSignals h cholSolve hc]
  cases wireSignalsDeconv o cholSolve wireResp (block.map Prod.snd) with
  | ok sol =>
    simp only [omap_ok, mapBlock]
    rw [List.zip_map_right]
    rfl
  | err e => rfl
  | panic s => rfl

/-! ### Exact arithmetic: an ordered field and a positive factor -/

section field
variable {F : Type} [Field F] [LE F] [LT F] [LawfulOrderLT F] [IsLinearOrder F] [OrderedRing F]
  [DecidableLT F] [DecidableLE F]

/-- Over a linearly ordered field, multiplication by `c > 0` (and by `c²` on sums of squares)
satisfies every homogeneity law except the one about `+∞`. -/
theorem homog_of_pos (top c : F) (hc : 0 < c) :
    HomogCore (fieldOps top) (c * ·) (c * c * ·) where
  zero := by simp only [fieldOps_zero]; grind
  sub_mul := by intro a v r; simp only [fieldOps_sub, fieldOps_mul]; grind
  div := by
    intro a r; simp only [fieldOps_div, Field.div_eq_mul_inv]; grind
  min := by
    intro a b
    simp only [fieldOps_min, Field.IsOrdered.mul_lt_mul_iff_of_pos_left hc]
    split <;> rfl
  nonneg := by
    intro a
    simp only [fieldOps_le, fieldOps_zero]
    have : (0 : F) ≤ c * a ↔ 0 ≤ a := by
      have := Field.IsOrdered.mul_le_mul_iff_of_pos_left (a := 0) (b := a) hc
      rwa [Semiring.mul_zero] at this
    simp only [this]
  sq := by intro a; simp only [fieldOps_mul]; grind
  add2 := by intro a b; simp only [fieldOps_add]; grind
  sumInit := by simp only [fieldOps_sumInit]; grind
  lt2 := by
    intro a b
    simp only [fieldOps_lt,
      Field.IsOrdered.mul_lt_mul_iff_of_pos_left (OrderedRing.mul_pos hc hc)]

/-- Field-level `ls_deconvolution` scaling. `top` stands for `f64::INFINITY`; a field has no
largest element, so the hypothesis says what `+∞` is used for: the sum of squared residuals of
the *first* grid point, for the signal and for the scaled signal, is `< top` (so that it replaces
the initial best in both sweeps; from then on only `HomogCore` is needed). -/
theorem deconv_scale_field_first (top c : F) (hc : 0 < c) (b : Bool) (signal resp : List F)
    (offLo offHi laLo laHi : Nat)
    (h1 : ∀ p, (grid offLo offHi laLo laHi).head? = some p → ∀ res r inp,
      nnGreedy (fieldOps top) b signal resp p.1 p.2 = .ok (res, r, inp) → r < top)
    (h2 : ∀ p, (grid offLo offHi laLo laHi).head? = some p → ∀ res r inp,
      nnGreedy (fieldOps top) b (signal.map (c * ·)) resp p.1 p.2 = .ok (res, r, inp) → r < top) :
    lsDeconvWith (fieldOps top) b (signal.map (c * ·)) resp offLo offHi laLo laHi
      = omap (List.map (c * ·))
          (lsDeconvWith (fieldOps top) b signal resp offLo offHi laLo laHi) := by
  have h := homog_of_pos top c hc
  unfold lsDeconvWith
  generalize grid offLo offHi laLo laHi = g at h1 h2
  cases g with
  | nil => rfl
  | cons p rest =>
    obtain ⟨off, la⟩ := p
    have h1' := h1 (off, la) rfl
    have h2' := h2 (off, la) rfl
    simp only [deconv_scale_nn h] at h2'
    simp only [lsLoop, deconv_scale_nn h]
    cases hnn : nnGreedy (fieldOps top) b signal resp off la with
    | ok t =>
      obtain ⟨res, s, inp⟩ := t
      have e1 : s < top := h1' res s inp hnn
      have e2 : c * c * s < top := by
        have := h2' (res.map (c * ·)) (c * c * s) (inp.map (c * ·))
        simp only [hnn, omap_ok, mapTriple] at this
        exact this trivial
      simp only [omap_ok, mapTriple, fieldOps_inf, fieldOps_lt, e1, e2, decide_true, if_true]
      exact lsLoop_scale h b signal resp rest s inp
    | err e => rfl
    | panic s => rfl

/-- The same with the hypothesis on every grid point of the two sweeps ("no residual sum reaches
`+∞`"); a special case of `deconv_scale_field_first`. -/
theorem deconv_scale_field (top c : F) (hc : 0 < c) (b : Bool) (signal resp : List F)
    (offLo offHi laLo laHi : Nat)
    (h1 : ∀ p ∈ grid offLo offHi laLo laHi, ∀ res r inp,
      nnGreedy (fieldOps top) b signal resp p.1 p.2 = .ok (res, r, inp) → r < top)
    (h2 : ∀ p ∈ grid offLo offHi laLo laHi, ∀ res r inp,
      nnGreedy (fieldOps top) b (signal.map (c * ·)) resp p.1 p.2 = .ok (res, r, inp) → r < top) :
    lsDeconvWith (fieldOps top) b (signal.map (c * ·)) resp offLo offHi laLo laHi
      = omap (List.map (c * ·))
          (lsDeconvWith (fieldOps top) b signal resp offLo offHi laLo laHi) :=
  deconv_scale_field_first top c hc b signal resp offLo offHi laLo laHi
    (fun p hp => h1 p (List.mem_of_head? hp)) (fun p hp => h2 p (List.mem_of_head? hp))

end field

/-! ### A carrier with `+∞`: the full `Homog` is satisfiable non-trivially -/

/-- Adjoin one element `none` standing for `+∞` to a carrier: arithmetic is strict in it, and it
is larger than everything else. (A coarse stand-in for the IEEE infinities, enough to show that
the `inf` law is compatible with the others.) -/
def liftOps {α : Type} (o : Ops α) : Ops (Option α) where
  zero := some o.zero
  inf := none
  sumInit := some o.sumInit
  add := fun a b => match a, b with | some x, some y => some (o.add x y) | _, _ => none
  sub := fun a b => match a, b with | some x, some y => some (o.sub x y) | _, _ => none
  mul := fun a b => match a, b with | some x, some y => some (o.mul x y) | _, _ => none
  div := fun a b => match a, b with | some x, some y => some (o.div x y) | _, _ => none
  min := fun a b => match a, b with | some x, some y => some (o.min x y) | _, _ => none
  lt := fun a b => match a, b with
    | some x, some y => o.lt x y | some _, none => true | none, _ => false
  le := fun a b => match a, b with
    | some x, some y => o.le x y | _, none => true | none, some _ => false

/-- Every `HomogCore` instance extends to a full `Homog` instance on the carrier with `+∞`. -/
theorem homog_lift {α : Type} {o : Ops α} {σ σ2 : α → α} (h : HomogCore o σ σ2) :
    Homog (liftOps o) (Option.map σ) (Option.map σ2) where
  zero := by simp [liftOps, h.zero]
  sub_mul := by
    intro a v r
    cases a <;> cases v <;> cases r <;> simp [liftOps, h.sub_mul]
  div := by intro a r; cases a <;> cases r <;> simp [liftOps, h.div]
  min := by intro a b; cases a <;> cases b <;> simp [liftOps, h.min]
  nonneg := by intro a; cases a <;> simp [liftOps, h.nonneg]
  sq := by intro a; cases a <;> simp [liftOps, h.sq]
  add2 := by intro a b; cases a <;> cases b <;> simp [liftOps, h.add2]
  sumInit := by simp [liftOps, h.sumInit]
  lt2 := by intro a b; cases a <;> cases b <;> simp [liftOps, h.lt2]
  inf := rfl

/-- Non-vacuity of `deconv_scale`: rationals with `+∞`, factor `2`. -/
example : Homog (liftOps (fieldOps (0 : Rat))) (Option.map (2 * ·)) (Option.map (2 * 2 * ·)) :=
  homog_lift (homog_of_pos 0 2 (by decide))

/-- Non-vacuity: the laws of `HomogCore` hold over `Rat` for the factor `2`. (The full `Homog` cannot
hold over a field itself for `c² ≠ 1`, `top ≠ 0`: it would say `c²·top = top`.) -/
example : HomogCore (fieldOps (1000 : Rat)) (2 * ·) (2 * 2 * ·) :=
  homog_of_pos 1000 2 (by decide)

end AlphaG.Deconv
