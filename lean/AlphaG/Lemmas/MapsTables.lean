import AlphaG.Model.Maps
import AlphaG.Lemmas.Bytes
import AlphaG.Lemmas.MapsBij
/-
Structural bijection lemmas for the detector maps (C08). Each generated table is validated by
a small kernel-evaluated check (`wireTablesOk`: 16 + 32 steps, `pwbTableOk`: 64 + |boards|
steps, `padOk`: 288 steps); the lemmas here turn those checks into bijection statements and
compose them (8 boards × 32 channels → 256 wires; 64 installed boards × 4 chips × 72 channels →
32 × 576 pads) by arithmetic, without enumerating the 18 432 pads. Core Lean only.
-/
namespace AlphaG.Maps
open AlphaG AlphaG.Generated

/-! ### Anode wires -/

/-- Preamp on connector `k % 2` of board `k / 2`. -/
def preOf (rows : List (String × Nat × Nat)) (k : Nat) : Nat :=
  if k % 2 = 0 then firstPreamp rows (k / 2) else secondPreamp rows (k / 2)

def chanOf (chans : List Nat) (c : Nat) : Nat := chans.getD c 0

/-- Kernel-evaluated validity of a (preamp table, channel table) pair: every name resolves,
every Alpha16 board has a row, the 16 connectors carry the 16 preamps, the 32 channels are a
permutation. -/
def wireTablesOk (rows : List (String × Nat × Nat)) (chans : List Nat) : Bool :=
  preampRowsResolve rows
    && (List.range 8).all (fun b => (preampLookup rows b).isSome)
    && permCheck (preOf rows) 16
    && decide (chans.length = 32)
    && permCheck (chanOf chans) 32

/-- `(board, channel) ↦ wire` is a bijection from 8 × 32 onto 256. -/
structure WireBij (f : Nat → Nat → Outcome String Nat) : Prop where
  total : ∀ b c, b < 8 → c < 32 → ∃ w, w < 256 ∧ f b c = .ok w
  inj : ∀ b c b' c' w, b < 8 → c < 32 → b' < 8 → c' < 32 →
    f b c = .ok w → f b' c' = .ok w → b = b' ∧ c = c'
  surj : ∀ w, w < 256 → ∃ b c, b < 8 ∧ c < 32 ∧ f b c = .ok w

theorem wireCore_eq (rows : List (String × Nat × Nat)) (chans : List Nat)
    (h : wireTablesOk rows chans = true) (b c : Nat) (hb : b < 8) (hc : c < 32) :
    wireCore rows chans b c
      = .ok (preOf rows (2 * b + chanOf chans c / 16) * 16 + chanOf chans c % 16) := by
  simp only [wireTablesOk, Bool.and_eq_true, List.all_eq_true, List.mem_range,
    decide_eq_true_eq] at h
  obtain ⟨⟨⟨⟨h1, h2⟩, _⟩, h4⟩, h5⟩ := h
  have hm := (permCheck_sound h5).range c hc
  have hs := h2 b hb
  have hn : (preampLookup rows b).isNone = false := by
    cases hx : preampLookup rows b with
    | none => rw [hx] at hs; cases hs
    | some _ => rfl
  unfold chanOf at hm
  have g1 : decide (c < chans.length) = true := decide_eq_true (by omega)
  have g2 : decide (chans.getD c 0 ≤ 31) = true := decide_eq_true (by omega)
  unfold wireCore
  rw [need_eq h1, hn, if_neg (by simp), need_eq g1, need_eq g2]
  congr 1
  unfold preOf chanOf
  by_cases hle : chans.getD c 0 ≤ 15
  · rw [if_pos hle]
    have e1 : chans.getD c 0 / 16 = 0 := by omega
    have e2 : chans.getD c 0 % 16 = chans.getD c 0 := by omega
    rw [e1, e2, if_pos (by omega)]
    congr 3; omega
  · rw [if_neg hle]
    have e1 : chans.getD c 0 / 16 = 1 := by omega
    have e2 : chans.getD c 0 % 16 = chans.getD c 0 - 16 := by omega
    rw [e1, e2, if_neg (by omega)]
    congr 3; omega

theorem wireBij_of_ok (rows : List (String × Nat × Nat)) (chans : List Nat)
    (h : wireTablesOk rows chans = true) : WireBij (wireCore rows chans) := by
  have h' := h
  simp only [wireTablesOk, Bool.and_eq_true] at h'
  obtain ⟨⟨⟨_, h3⟩, _⟩, h5⟩ := h'
  have P := permCheck_sound h3
  have C := permCheck_sound h5
  refine ⟨?_, ?_, ?_⟩
  · intro b c hb hc
    refine ⟨_, ?_, wireCore_eq rows chans h b c hb hc⟩
    have hm := C.range c hc
    have hp := P.range (2 * b + chanOf chans c / 16) (by omega)
    omega
  · intro b c b' c' w hb hc hb' hc' e e'
    rw [wireCore_eq rows chans h b c hb hc, ok_eq_ok] at e
    rw [wireCore_eq rows chans h b' c' hb' hc', ok_eq_ok] at e'
    have hm := C.range c hc
    have hm' := C.range c' hc'
    have hk : preOf rows (2 * b + chanOf chans c / 16) = preOf rows (2 * b' + chanOf chans c' / 16) := by
      omega
    have hk' := P.inj _ _ (by omega) (by omega) hk
    have hmm : chanOf chans c = chanOf chans c' := by omega
    exact ⟨by omega, C.inj _ _ hc hc' hmm⟩
  · intro w hw
    obtain ⟨k, hk, ek⟩ := P.surj (w / 16) (by omega)
    obtain ⟨c, hc, ec⟩ := C.surj (k % 2 * 16 + w % 16) (by omega)
    refine ⟨k / 2, c, by omega, hc, ?_⟩
    rw [wireCore_eq rows chans h (k / 2) c (by omega) hc, ec]
    have e1 : 2 * (k / 2) + (k % 2 * 16 + w % 16) / 16 = k := by omega
    have e2 : (k % 2 * 16 + w % 16) % 16 = w % 16 := by omega
    rw [e1, e2, ek, ok_eq_ok]
    omega

/-! ### PadWing boards in the TPC -/

/-- Board (row of `PADWING_BOARDS`) in cell `k = column * 8 + row` of a table. -/
def pwbAt (t : List (List String)) (k : Nat) : Option Nat := pwbBoardIdx ((pwbFlat t).getD k "")

/-- Kernel-evaluated validity of one `PADWING_BOARDS_*` table: every name resolves, 8 × 8, the
board in every cell is looked up to that cell, and every board that is looked up anywhere sits
in the cell it is looked up to. -/
def pwbTableOk (t : List (List String)) : Bool :=
  pwbCellsResolve t
    && (decide (t.length ≤ tpcPwbColumns) && t.all (fun col => decide (col.length ≤ tpcPwbRows)))
    && (List.range 64).all (fun k =>
        match pwbAt t k with
        | some b => decide (b < padwingBoards.length) && (pwbLookup t b == some (k / 8, k % 8))
        | none => false)
    && (List.range padwingBoards.length).all (fun b =>
        match pwbLookup t b with
        | none => true
        | some p => decide (p.1 < 8) && decide (p.2 < 8) && (pwbAt t (p.1 * 8 + p.2) == some b))

/-- `board ↦ (column, row)` is a bijection from the installed boards onto 8 × 8. -/
structure PwbBij (g : Nat → Outcome String (Nat × Nat)) (nBoards : Nat) : Prop where
  noPanic : ∀ b, NoPanic (g b)
  range : ∀ b p, b < nBoards → g b = .ok p → p.1 < 8 ∧ p.2 < 8
  inj : ∀ b b' p, b < nBoards → b' < nBoards → g b = .ok p → g b' = .ok p → b = b'
  surj : ∀ c r, c < 8 → r < 8 → ∃ b, b < nBoards ∧ g b = .ok (c, r)

theorem pwbCore_ok_iff (t : List (List String)) (h : pwbTableOk t = true) (b : Nat) (p : Nat × Nat) :
    pwbCore t b = .ok p ↔ pwbLookup t b = some p := by
  simp only [pwbTableOk, Bool.and_eq_true] at h
  obtain ⟨⟨⟨h1, h2⟩, _⟩, _⟩ := h
  unfold pwbCore
  rw [need_eq h1, need_eq (by simpa using h2)]
  cases hx : pwbLookup t b with
  | none => simp
  | some q => simp

theorem pwbBij_of_ok (t : List (List String)) (h : pwbTableOk t = true) :
    PwbBij (pwbCore t) padwingBoards.length := by
  have h' := h
  simp only [pwbTableOk, Bool.and_eq_true, List.all_eq_true, List.mem_range] at h'
  obtain ⟨⟨⟨h1, h2⟩, h3⟩, h4⟩ := h'
  refine ⟨?_, ?_, ?_, ?_⟩
  · intro b
    unfold pwbCore
    rw [need_eq h1, need_eq (by simpa [List.all_eq_true] using h2)]
    apply noPanic_ite_err; intro _; exact noPanic_ok _
  · intro b p hb e
    rw [pwbCore_ok_iff t h] at e
    have := h4 b hb
    rw [e] at this
    simp only [Bool.and_eq_true, decide_eq_true_eq] at this
    exact ⟨this.1.1, this.1.2⟩
  · intro b b' p hb hb' e e'
    rw [pwbCore_ok_iff t h] at e e'
    have h5 := h4 b hb
    have h6 := h4 b' hb'
    rw [e] at h5; rw [e'] at h6
    simp only [Bool.and_eq_true, beq_iff_eq] at h5 h6
    have := h5.2.symm.trans h6.2
    simpa using this
  · intro c r hc hr
    have := h3 (c * 8 + r) (by omega)
    cases hx : pwbAt t (c * 8 + r) with
    | none => rw [hx] at this; cases this
    | some b =>
      rw [hx] at this
      simp only [Bool.and_eq_true, decide_eq_true_eq, beq_iff_eq] at this
      refine ⟨b, this.1, ?_⟩
      rw [pwbCore_ok_iff t h, this.2]
      congr 2 <;> omega

/-! ### Pads within a PadWing board -/

/-- Pad `(chip, channel)` number `i = chip * 72 + (channel - 1)` ↦ `column * 72 + row`
(288 when the entry is not a position inside 4 × 72). -/
def padEnc (i : Nat) : Nat :=
  match padEntry (i / 72) (i % 72 + 1) with
  | .ok p => if p.1 < 4 ∧ p.2 < 72 then p.1 * 72 + p.2 else 288
  | _ => 288

/-- Kernel-evaluated validity of the `INV_PADS_0` construction. -/
def padOk : Bool :=
  padInitOk && decide (padAfterMax = 3) && decide (padChannelLo = 1) && decide (padChannelHi = 72)
    && permCheck padEnc 288

/-- `(chip, pad channel) ↦ (column, row)` is a bijection from 4 × {1..72} onto 4 × 72. -/
structure PadBij (g : Nat → Nat → Outcome String (Nat × Nat)) : Prop where
  total : ∀ chip ch, chip < 4 → 1 ≤ ch → ch ≤ 72 → ∃ p, p.1 < 4 ∧ p.2 < 72 ∧ g chip ch = .ok p
  inj : ∀ chip ch chip' ch' p, chip < 4 → 1 ≤ ch → ch ≤ 72 → chip' < 4 → 1 ≤ ch' → ch' ≤ 72 →
    g chip ch = .ok p → g chip' ch' = .ok p → chip = chip' ∧ ch = ch'
  surj : ∀ c r, c < 4 → r < 72 → ∃ chip ch, chip < 4 ∧ 1 ≤ ch ∧ ch ≤ 72 ∧ g chip ch = .ok (c, r)

theorem padEnc_lt (i : Nat) (h : padEnc i < 288) :
    ∃ p, padEntry (i / 72) (i % 72 + 1) = .ok p ∧ p.1 < 4 ∧ p.2 < 72 ∧ padEnc i = p.1 * 72 + p.2 := by
  unfold padEnc at h ⊢
  cases hx : padEntry (i / 72) (i % 72 + 1) with
  | ok p =>
    rw [hx] at h
    simp only at h ⊢
    by_cases hp : p.1 < 4 ∧ p.2 < 72
    · rw [if_pos hp]; exact ⟨p, rfl, hp.1, hp.2, rfl⟩
    · rw [if_neg hp] at h; omega
  | err e => rw [hx] at h; simp at h
  | panic s => rw [hx] at h; simp at h

theorem padInPwb_eq (h : padOk = true) (chip ch : Nat) (h1 : chip < 4) (h2 : 1 ≤ ch) (h3 : ch ≤ 72) :
    padInPwb chip ch = padEntry chip ch := by
  simp only [padOk, Bool.and_eq_true, decide_eq_true_eq] at h
  obtain ⟨⟨⟨⟨i1, i2⟩, i3⟩, i4⟩, _⟩ := h
  unfold padInPwb
  rw [need_eq i1, need_eq]
  simp only [i2, i3, i4, Bool.and_eq_true, decide_eq_true_eq]
  omega

theorem padBij_of_ok (h : padOk = true) : PadBij padInPwb := by
  have h' := h
  simp only [padOk, Bool.and_eq_true] at h'
  have B := permCheck_sound h'.2
  refine ⟨?_, ?_, ?_⟩
  · intro chip ch h1 h2 h3
    obtain ⟨p, e, p1, p2, _⟩ := padEnc_lt (chip * 72 + (ch - 1)) (B.range _ (by omega))
    rw [show (chip * 72 + (ch - 1)) / 72 = chip by omega,
      show (chip * 72 + (ch - 1)) % 72 + 1 = ch by omega] at e
    exact ⟨p, p1, p2, by rw [padInPwb_eq h chip ch h1 h2 h3, e]⟩
  · intro chip ch chip' ch' p h1 h2 h3 h1' h2' h3' e e'
    rw [padInPwb_eq h chip ch h1 h2 h3] at e
    rw [padInPwb_eq h chip' ch' h1' h2' h3'] at e'
    obtain ⟨q, f, q1, q2, v⟩ := padEnc_lt (chip * 72 + (ch - 1)) (B.range _ (by omega))
    obtain ⟨q', f', q1', q2', v'⟩ := padEnc_lt (chip' * 72 + (ch' - 1)) (B.range _ (by omega))
    rw [show (chip * 72 + (ch - 1)) / 72 = chip by omega,
      show (chip * 72 + (ch - 1)) % 72 + 1 = ch by omega, e, ok_eq_ok] at f
    rw [show (chip' * 72 + (ch' - 1)) / 72 = chip' by omega,
      show (chip' * 72 + (ch' - 1)) % 72 + 1 = ch' by omega, e', ok_eq_ok] at f'
    subst f; subst f'
    have := B.inj _ _ (by omega) (by omega) (v.trans v'.symm)
    omega
  · intro c r hc hr
    obtain ⟨i, hi, ei⟩ := B.surj (c * 72 + r) (by omega)
    obtain ⟨p, e, p1, p2, v⟩ := padEnc_lt i (by omega)
    refine ⟨i / 72, i % 72 + 1, by omega, by omega, by omega, ?_⟩
    rw [padInPwb_eq h _ _ (by omega) (by omega) (by omega), e, ok_eq_ok]
    have : p.1 * 72 + p.2 = c * 72 + r := by omega
    have a : p.1 = c := by omega
    have b : p.2 = r := by omega
    cases p; simp only at a b; rw [a, b]

/-! ### Pads in the TPC: the product -/

/-- `(board, chip, pad channel) ↦ (column, row)` is a bijection from (installed boards) × 4 ×
{1..72} onto 32 × 576 = 18 432 pads; a board that is not installed gives an error for every
pad; nothing panics. -/
structure TpcPadBij (f : Nat → Nat → Nat → Outcome String (Nat × Nat))
    (installed : Nat → Prop) (nBoards : Nat) : Prop where
  total : ∀ b chip ch, b < nBoards → installed b → chip < 4 → 1 ≤ ch → ch ≤ 72 →
    ∃ p, p.1 < 32 ∧ p.2 < 576 ∧ f b chip ch = .ok p
  notInstalled : ∀ b chip ch, b < nBoards → ¬ installed b → ∃ e, f b chip ch = .err e
  inj : ∀ b chip ch b' chip' ch' p, b < nBoards → chip < 4 → 1 ≤ ch → ch ≤ 72 →
    b' < nBoards → chip' < 4 → 1 ≤ ch' → ch' ≤ 72 →
    f b chip ch = .ok p → f b' chip' ch' = .ok p → b = b' ∧ chip = chip' ∧ ch = ch'
  surj : ∀ c r, c < 32 → r < 576 → ∃ b chip ch, b < nBoards ∧ installed b ∧ chip < 4 ∧ 1 ≤ ch ∧
    ch ≤ 72 ∧ f b chip ch = .ok (c, r)

theorem padCombine_eq (bp pp : Nat × Nat) (h1 : bp.1 < 8) (h2 : bp.2 < 8) (h3 : pp.1 < 4)
    (h4 : pp.2 < 72) : padCombine bp pp = .ok (bp.1 * 4 + pp.1, bp.2 * 72 + pp.2) := by
  unfold padCombine
  have c1 : pwbPadColumns = 4 := rfl
  have c2 : pwbPadRows = 72 := rfl
  have c3 : tpcPadColumns = 32 := rfl
  have c4 : tpcPadRows = 576 := rfl
  rw [need_eq (by simp only [c1, c3, decide_eq_true_eq]; omega),
    need_eq (by simp only [c2, c4, decide_eq_true_eq]; omega), c1, c2]

theorem tpcPadBij_of (g : Nat → Outcome String (Nat × Nat)) (n : Nat) (G : PwbBij g n)
    (P : PadBij padInPwb) : TpcPadBij (padCompose g) (fun b => ∃ p, g b = .ok p) n := by
  have comp : ∀ b chip ch bp pp, g b = .ok bp → padInPwb chip ch = .ok pp →
      padCompose g b chip ch = padCombine bp pp := by
    intro b chip ch bp pp e1 e2
    simp only [padCompose, e1, e2]
  refine ⟨?_, ?_, ?_, ?_⟩
  · intro b chip ch hb ⟨bp, e1⟩ h1 h2 h3
    obtain ⟨pp, p1, p2, e2⟩ := P.total chip ch h1 h2 h3
    obtain ⟨b1, b2⟩ := G.range b bp hb e1
    refine ⟨_, ?_, ?_, by rw [comp _ _ _ _ _ e1 e2, padCombine_eq bp pp b1 b2 p1 p2]⟩ <;>
      simp only <;> omega
  · intro b chip ch _ hni
    cases hx : g b with
    | ok bp => exact absurd ⟨bp, hx⟩ hni
    | err e => exact ⟨e, by simp only [padCompose, hx]⟩
    | panic s => exact absurd hx (G.noPanic b s)
  · intro b chip ch b' chip' ch' p hb h1 h2 h3 hb' h1' h2' h3' e e'
    obtain ⟨pp, p1, p2, e2⟩ := P.total chip ch h1 h2 h3
    obtain ⟨pp', p1', p2', e2'⟩ := P.total chip' ch' h1' h2' h3'
    cases hx : g b with
    | err x => simp only [padCompose, hx] at e; cases e
    | panic s => simp only [padCompose, hx] at e; cases e
    | ok bp =>
      cases hx' : g b' with
      | err x => simp only [padCompose, hx'] at e'; cases e'
      | panic s => simp only [padCompose, hx'] at e'; cases e'
      | ok bp' =>
        obtain ⟨b1, b2⟩ := G.range b bp hb hx
        obtain ⟨b1', b2'⟩ := G.range b' bp' hb' hx'
        rw [comp _ _ _ _ _ hx e2, padCombine_eq bp pp b1 b2 p1 p2, ok_eq_ok] at e
        rw [comp _ _ _ _ _ hx' e2', padCombine_eq bp' pp' b1' b2' p1' p2', ok_eq_ok] at e'
        have ee := e.trans e'.symm
        simp only [Prod.mk.injEq] at ee
        have q1 : bp.1 = bp'.1 := by omega
        have q2 : bp.2 = bp'.2 := by omega
        have q3 : pp.1 = pp'.1 := by omega
        have q4 : pp.2 = pp'.2 := by omega
        have ebp : bp = bp' := Prod.ext q1 q2
        have epp : pp = pp' := Prod.ext q3 q4
        subst ebp; subst epp
        exact ⟨G.inj b b' bp hb hb' hx hx', P.inj chip ch chip' ch' pp h1 h2 h3 h1' h2' h3' e2 e2'⟩
  · intro c r hc hr
    obtain ⟨b, hb, e1⟩ := G.surj (c / 4) (r / 72) (by omega) (by omega)
    obtain ⟨chip, ch, h1, h2, h3, e2⟩ := P.surj (c % 4) (r % 72) (by omega) (by omega)
    refine ⟨b, chip, ch, hb, ⟨_, e1⟩, h1, h2, h3, ?_⟩
    rw [comp _ _ _ _ _ e1 e2, padCombine_eq _ _ (by simp only; omega) (by simp only; omega)
      (by simp only; omega) (by simp only; omega), ok_eq_ok]
    simp only [Prod.mk.injEq]
    omega

end AlphaG.Maps
