import AlphaG.Model.Matching
import AlphaG.Lemmas.RangesSpec
/-
Rotation equivariance of `MainEvent::avalanches` (model `Matching.avalanches`) by whole pad
columns, *given* the facts about `contiguous_ranges` (`RangesFacts`, proved elsewhere), and the
concrete counter-model showing that the key step fails for a fully occupied ring.

The carrier `α`, `Ops α`, `Geo α`, `Sorter α`, `Params α` are arbitrary (no laws).
-/
namespace AlphaG.Matching
open AlphaG.Deconv AlphaG.Ranges

/-- The facts about `contiguousRanges` this file relies on (proved in `Lemmas/Ranges*.lean`). -/
structure RangesFacts : Prop where
  hrot : ∀ (occ : List Bool) (k : Nat), false ∈ occ →
    (blocks (rotOcc k occ)).Perm ((blocks occ).map (shiftBlock occ.length k))
  hdisj : ∀ occ : List Bool, ((contiguousRanges occ).flatMap (rangeToIndices occ.length)).Nodup
  hcover : ∀ (occ : List Bool) (w : Nat), (w < occ.length ∧ occ.getD w false = true) ↔
    ∃ r ∈ contiguousRanges occ, w ∈ rangeToIndices occ.length r

/-! ### 1. wire ↔ pad column arithmetic -/

theorem wireToPadColumn_eq (w : Nat) (h : w < 256) : wireToPadColumn w = ((w + 248) % 256) / 8 := by
  unfold wireToPadColumn wireShift wiresPerColumn
  have : (0xff : Nat) = 2 ^ 8 - 1 := by decide
  rw [this, Nat.and_two_pow_sub_one_eq_mod]
  omega

theorem padColumnToWires_eq (c : Nat) (_h : c < 32) :
    padColumnToWires c = ((c * 8 + 8) % 256, (c * 8 + 8) % 256 + 8) := by
  unfold padColumnToWires wireShift wiresPerColumn
  have : (0xff : Nat) = 2 ^ 8 - 1 := by decide
  rw [this, Nat.and_two_pow_sub_one_eq_mod]

theorem wire_column_roundtrip :
    (∀ c j, c < 32 → j < 8 → wireToPadColumn ((padColumnToWires c).1 + j) = c) ∧
    (∀ w, w < 256 → (padColumnToWires (wireToPadColumn w)).1 ≤ w ∧
      w < (padColumnToWires (wireToPadColumn w)).2) := by
  constructor
  · intro c j hc hj
    rw [padColumnToWires_eq c hc]
    show wireToPadColumn ((c * 8 + 8) % 256 + j) = c
    rw [wireToPadColumn_eq _ (by omega)]
    omega
  · intro w hw
    rw [wireToPadColumn_eq w hw, padColumnToWires_eq _ (by omega)]
    show ((w + 248) % 256 / 8 * 8 + 8) % 256 ≤ w ∧ w < ((w + 248) % 256 / 8 * 8 + 8) % 256 + 8
    omega

/-- Shifting a wire by `k` pad columns shifts its pad column by `k`. -/
theorem wireToPadColumn_shift (w k : Nat) (h : w < 256) :
    wireToPadColumn ((w + 8 * k) % 256) = (wireToPadColumn w + k) % 32 := by
  rw [wireToPadColumn_eq _ (Nat.mod_lt _ (by decide)), wireToPadColumn_eq w h]
  omega

theorem wireToPadColumn_lt (w : Nat) (h : w < 256) : wireToPadColumn w < 32 := by
  rw [wireToPadColumn_eq w h]; omega

/-! ### generic list helpers -/

theorem flatMap_congr' {β γ : Type} {l : List β} {f g : β → List γ} (h : ∀ a ∈ l, f a = g a) :
    l.flatMap f = l.flatMap g := by
  induction l with
  | nil => rfl
  | cons a l ih =>
    simp only [List.flatMap_cons]
    rw [h a (List.mem_cons_self), ih (fun b hb => h b (List.mem_cons_of_mem _ hb))]

theorem map_fst_zip_sublist {β γ : Type} (l₁ : List β) (l₂ : List γ) :
    ((l₁.zip l₂).map Prod.fst).Sublist l₁ := by
  induction l₁ generalizing l₂ with
  | nil => simp
  | cons a l₁ ih =>
    cases l₂ with
    | nil => simp
    | cons b l₂ => simpa using ih l₂

theorem flatMap_sublist {β γ : Type} (l : List β) (f g : β → List γ)
    (h : ∀ a ∈ l, (f a).Sublist (g a)) : (l.flatMap f).Sublist (l.flatMap g) := by
  induction l with
  | nil => simp
  | cons a l ih =>
    simp only [List.flatMap_cons]
    exact List.Sublist.append (h a List.mem_cons_self)
      (ih (fun b hb => h b (List.mem_cons_of_mem _ hb)))

/-- Nodup lists with the same members are permutations of each other. -/
theorem perm_of_nodup_of_mem_iff {l₁ l₂ : List Nat} (h₁ : l₁.Nodup) (h₂ : l₂.Nodup)
    (h : ∀ a, a ∈ l₁ ↔ a ∈ l₂) : l₁.Perm l₂ := by
  rw [List.perm_iff_count]
  intro a
  rw [h₁.count, h₂.count]
  simp only [h a]

theorem nodup_map_of_inj_on {l : List Nat} (f : Nat → Nat) (hl : l.Nodup)
    (hf : ∀ a ∈ l, ∀ b ∈ l, f a = f b → a = b) : (l.map f).Nodup := by
  induction l with
  | nil => simp
  | cons a l ih =>
    rw [List.nodup_cons] at hl
    simp only [List.map_cons, List.nodup_cons, List.mem_map]
    refine ⟨?_, ih hl.2 (fun x hx y hy => hf x (List.mem_cons_of_mem _ hx) y (List.mem_cons_of_mem _ hy))⟩
    rintro ⟨b, hb, hab⟩
    have := hf b (List.mem_cons_of_mem _ hb) a List.mem_cons_self hab
    exact hl.1 (this ▸ hb)

/-! ### 2. occupancy of the rotated event -/

variable {α : Type}

theorem occupancy_length (ev : Event α) : (occupancy ev).length = 256 := by
  simp [occupancy, nWires]

theorem occupancy_getD (ev : Event α) (w : Nat) (h : w < 256) :
    (occupancy ev).getD w false = (ev.wires w).isSome := by
  simp [occupancy, nWires, List.getD_eq_getElem?_getD, h]

theorem occupancy_rot (ev : Event α) (k : Nat) :
    occupancy (rot k ev) = rotOcc (wiresPerColumn * k) (occupancy ev) := by
  unfold rotOcc
  rw [occupancy_length]
  show (List.range 256).map _ = _
  apply List.map_congr_left
  intro w _
  rw [occupancy_getD _ _ (Nat.mod_lt _ (by decide))]
  rfl

/-! ### 3. the wire inputs of the rotated event -/

theorem foldl_wireInput_not_mem (as : List (Nat × List α)) (w : Nat) (acc : List α)
    (h : w ∉ as.map Prod.fst) :
    as.foldl (fun acc p => if p.1 = w then p.2 else acc) acc = acc := by
  induction as generalizing acc with
  | nil => rfl
  | cons p as ih =>
    simp only [List.map_cons, List.mem_cons, not_or] at h
    simp only [List.foldl_cons]
    rw [if_neg (fun e => h.1 e.symm)]
    exact ih acc h.2

theorem foldl_wireInput_of_nodup (as : List (Nat × List α)) (w : Nat) (x acc : List α)
    (hn : (as.map Prod.fst).Nodup) (hm : (w, x) ∈ as) :
    as.foldl (fun acc p => if p.1 = w then p.2 else acc) acc = x := by
  induction as generalizing acc with
  | nil => cases hm
  | cons p as ih =>
    simp only [List.map_cons, List.nodup_cons] at hn
    simp only [List.foldl_cons]
    rcases List.mem_cons.1 hm with e | hm'
    · subst e
      simp only [if_true]
      exact foldl_wireInput_not_mem as w x hn.1
    · have hne : p.1 ≠ w := by
        intro e
        exact hn.1 (e ▸ List.mem_map.2 ⟨(w, x), hm', rfl⟩)
      rw [if_neg hne]
      exact ih acc hn.2 hm'

theorem wireInput_not_mem (as : List (Nat × List α)) (w : Nat) (h : w ∉ as.map Prod.fst) :
    wireInput as w = [] := foldl_wireInput_not_mem as w [] h

theorem wireInput_of_nodup (as : List (Nat × List α)) (w : Nat) (x : List α)
    (hn : (as.map Prod.fst).Nodup) (hm : (w, x) ∈ as) : wireInput as w = x :=
  foldl_wireInput_of_nodup as w x [] hn hm

/-- The wire shift of a rotation by `k` pad columns. -/
def shW (k w : Nat) : Nat := (w + 8 * k) % 256

theorem shW_inj (k a b : Nat) (ha : a < 256) (hb : b < 256) (h : shW k a = shW k b) : a = b := by
  unfold shW at h; omega

variable (P : Params α)

/-- The assignments of one block. -/
def blockAssign (ev : Event α) (b : List Nat) : List (Nat × List α) :=
  b.zip (P.deconvBlock (blockSignals ev b))

theorem assignments_eq (ev : Event α) :
    assignments P ev = (blocks (occupancy ev)).flatMap (blockAssign P ev) := by
  unfold assignments blocks blockAssign
  rw [List.flatMap_map, occupancy_length]
  rfl

theorem mem_block_lt (F : RangesFacts) (ev : Event α) (b : List Nat)
    (hb : b ∈ blocks (occupancy ev)) (w : Nat) (hw : w ∈ b) : w < 256 := by
  unfold blocks at hb
  obtain ⟨r, hr, rfl⟩ := List.mem_map.1 hb
  have := ((F.hcover (occupancy ev) w).2 ⟨r, hr, hw⟩).1
  rwa [occupancy_length] at this

theorem blockSignals_rot (ev : Event α) (k : Nat) (b : List Nat) (hb : ∀ w ∈ b, w < 256) :
    blockSignals (rot k ev) (shiftBlock 256 (wiresPerColumn * k) b) = blockSignals ev b := by
  unfold blockSignals shiftBlock
  rw [List.map_map]
  apply List.map_congr_left
  intro w hw
  have hw := hb w hw
  show ((rot k ev).wires ((w + wiresPerColumn * k) % 256)).getD [] = _
  unfold rot wiresPerColumn nWires
  show (ev.wires (((w + 8 * k) % 256 + 256 - 8 * k % 256) % 256)).getD [] = _
  have : ((w + 8 * k) % 256 + 256 - 8 * k % 256) % 256 = w := by omega
  rw [this]

theorem blockAssign_rot (ev : Event α) (k : Nat) (b : List Nat) (hb : ∀ w ∈ b, w < 256) :
    blockAssign P (rot k ev) (shiftBlock 256 (wiresPerColumn * k) b)
      = (blockAssign P ev b).map fun p => (shW k p.1, p.2) := by
  unfold blockAssign
  rw [blockSignals_rot ev k b hb]
  unfold shiftBlock
  rw [List.zip_map_left]
  rfl

/-- The assignments of the rotated event are, up to the order of whole blocks, those of the
event with the wire index shifted. -/
theorem assignments_rot_perm (F : RangesFacts) (ev : Event α) (k : Nat)
    (hf : false ∈ occupancy ev) :
    (assignments P (rot k ev)).Perm ((assignments P ev).map fun p => (shW k p.1, p.2)) := by
  rw [assignments_eq, assignments_eq, occupancy_rot]
  have h := F.hrot (occupancy ev) (wiresPerColumn * k) hf
  rw [occupancy_length] at h
  refine (List.Perm.flatMap_right _ h).trans ?_
  rw [List.flatMap_map, List.map_flatMap]
  rw [flatMap_congr' (fun b hb => blockAssign_rot P ev k b (mem_block_lt F ev b hb))]

theorem assignments_fst_nodup (F : RangesFacts) (ev : Event α) :
    ((assignments P ev).map Prod.fst).Nodup := by
  have h := F.hdisj (occupancy ev)
  refine List.Nodup.sublist ?_ h
  unfold assignments
  rw [List.map_flatMap, occupancy_length]
  apply flatMap_sublist
  intro r _
  exact map_fst_zip_sublist _ _

theorem assignments_fst_lt (F : RangesFacts) (ev : Event α) (p : Nat × List α)
    (hp : p ∈ assignments P ev) : p.1 < 256 := by
  rw [assignments_eq] at hp
  obtain ⟨b, hb, hpb⟩ := List.mem_flatMap.1 hp
  unfold blockAssign at hpb
  obtain ⟨w, x⟩ := p
  exact mem_block_lt F ev b hb w (List.of_mem_zip hpb).1

/-- Key lemma: wire `w + 8k` of the rotated event gets the input wire `w` gets in the event. -/
theorem wireInput_rot (F : RangesFacts) (ev : Event α) (k : Nat) (hf : false ∈ occupancy ev)
    (w : Nat) (hw : w < 256) :
    wireInput (assignments P (rot k ev)) ((w + 8 * k) % 256) = wireInput (assignments P ev) w := by
  have hperm := assignments_rot_perm P F ev k hf
  show wireInput (assignments P (rot k ev)) (shW k w) = _
  by_cases hmem : w ∈ (assignments P ev).map Prod.fst
  · obtain ⟨⟨w', x⟩, hp, rfl⟩ := List.mem_map.1 hmem
    rw [wireInput_of_nodup _ _ x (assignments_fst_nodup P F ev) hp]
    apply wireInput_of_nodup _ _ x (assignments_fst_nodup P F (rot k ev))
    exact hperm.mem_iff.2 (List.mem_map.2 ⟨(w', x), hp, rfl⟩)
  · rw [wireInput_not_mem _ _ hmem]
    apply wireInput_not_mem
    intro hm
    obtain ⟨q, hq, hqe⟩ := List.mem_map.1 hm
    obtain ⟨p, hp, rfl⟩ := List.mem_map.1 (hperm.mem_iff.1 hq)
    have := shW_inj k p.1 w (assignments_fst_lt P F ev p hp) hw hqe
    exact hmem (this ▸ List.mem_map.2 ⟨p, hp, rfl⟩)

/-! ### 4. the pad columns of the rotated event -/

theorem mem_padColumns (as : List (Nat × List α)) (c : Nat) :
    c ∈ padColumns as ↔ c < 32 ∧ ∃ p ∈ as, wireToPadColumn p.1 = c := by
  unfold padColumns nColumns
  simp [List.mem_filter, List.mem_range]

theorem padColumns_nodup (as : List (Nat × List α)) : (padColumns as).Nodup :=
  List.Nodup.sublist List.filter_sublist List.nodup_range

theorem mem_padColumns_rot (F : RangesFacts) (ev : Event α) (k : Nat)
    (hf : false ∈ occupancy ev) (c : Nat) :
    c ∈ padColumns (assignments P (rot k ev)) ↔
      c < 32 ∧ ∃ c0 ∈ padColumns (assignments P ev), c = (c0 + k) % 32 := by
  have hperm := assignments_rot_perm P F ev k hf
  rw [mem_padColumns]
  constructor
  · rintro ⟨hc, q, hq, rfl⟩
    refine ⟨hc, ?_⟩
    obtain ⟨p, hp, rfl⟩ := List.mem_map.1 (hperm.mem_iff.1 hq)
    have hlt := assignments_fst_lt P F ev p hp
    refine ⟨wireToPadColumn p.1, (mem_padColumns _ _).2 ⟨wireToPadColumn_lt _ hlt, p, hp, rfl⟩, ?_⟩
    exact wireToPadColumn_shift p.1 k hlt
  · rintro ⟨hc, c0, hc0, rfl⟩
    refine ⟨hc, ?_⟩
    obtain ⟨_, p, hp, rfl⟩ := (mem_padColumns _ _).1 hc0
    have hlt := assignments_fst_lt P F ev p hp
    refine ⟨(shW k p.1, p.2), hperm.mem_iff.2 (List.mem_map.2 ⟨p, hp, rfl⟩), ?_⟩
    exact wireToPadColumn_shift p.1 k hlt

theorem padColumns_rot_perm (F : RangesFacts) (ev : Event α) (k : Nat)
    (hf : false ∈ occupancy ev) :
    (padColumns (assignments P (rot k ev))).Perm
      ((padColumns (assignments P ev)).map fun c => (c + k) % 32) := by
  have hlt : ∀ c ∈ padColumns (assignments P ev), c < 32 := fun c hc =>
    ((mem_padColumns _ _).1 hc).1
  apply perm_of_nodup_of_mem_iff (padColumns_nodup _)
  · apply nodup_map_of_inj_on _ (padColumns_nodup _)
    intro a ha b hb h
    have := hlt a ha; have := hlt b hb
    omega
  · intro c
    rw [mem_padColumns_rot P F ev k hf, List.mem_map]
    constructor
    · rintro ⟨_, c0, hc0, rfl⟩; exact ⟨c0, hc0, rfl⟩
    · rintro ⟨c0, hc0, rfl⟩; exact ⟨Nat.mod_lt _ (by decide), c0, hc0, rfl⟩

/-! ### 5. one pad column -/

theorem columnWires_eq (c : Nat) (hc : c < 32) :
    columnWires c = List.range' ((c * 8 + 8) % 256) 8 := by
  unfold columnWires
  rw [padColumnToWires_eq c hc]
  show List.range' ((c * 8 + 8) % 256) ((c * 8 + 8) % 256 + 8 - (c * 8 + 8) % 256) = _
  rw [Nat.add_sub_cancel_left]

theorem mem_columnWires_lt (c : Nat) (hc : c < 32) (w : Nat) (hw : w ∈ columnWires c) :
    w < 256 := by
  rw [columnWires_eq c hc, List.mem_range'_1] at hw
  omega

theorem columnWires_rot (c k : Nat) (hc : c < 32) :
    columnWires ((c + k) % 32) = (columnWires c).map fun w => (w + 8 * k) % 256 := by
  rw [columnWires_eq c hc, columnWires_eq _ (Nat.mod_lt _ (by decide))]
  simp only [List.range', List.map_cons, List.map_nil, List.cons.injEq, and_true]
  omega

theorem padInputs_rot (ev : Event α) (c k : Nat) (hc : c < 32) :
    padInputs P (rot k ev) ((c + k) % 32) = padInputs P ev c := by
  unfold padInputs
  apply List.map_congr_left
  intro row _
  have : (rot k ev).pads ((c + k) % 32) row = ev.pads c row := by
    show ev.pads (((c + k) % 32 + 32 - k % 32) % 32) row = _
    have : ((c + k) % 32 + 32 - k % 32) % 32 = c := by omega
    rw [this]
  rw [this]

theorem applyPerm_map {β γ : Type} (p : List Nat) (l : List β) (f : β → γ) :
    applyPerm p (l.map f) = (applyPerm p l).map f := by
  unfold applyPerm
  rw [List.map_filterMap]
  congr 1
  funext i
  rw [List.getElem?_map]

variable (o : Ops α) (g : Geo α) (s : Sorter α)

/-- The wire hit moved to the rotated wire. -/
def rotHit (k : Nat) (h : WireHit α) : WireHit α := ⟨(h.wire + 8 * k) % 256, h.amplitude⟩

theorem wireHitsAtT_rot (k : Nat) (idx : List Nat) (ins : List (List α)) (t : Nat) :
    wireHitsAtT o (idx.map fun w => (w + 8 * k) % 256) ins t
      = (wireHitsAtT o idx ins t).map (rotHit k) := by
  unfold wireHitsAtT
  rw [List.zip_map_left, List.filterMap_map, List.map_filterMap]
  congr 1
  funext p
  simp only [Function.comp]
  show (match p.2[t]? with
    | some v => if o.lt o.zero v then some (⟨(p.1 + 8 * k) % 256, v⟩ : WireHit α) else none
    | none => none) = _
  cases p.2[t]? with
  | none => rfl
  | some v =>
    by_cases h : o.lt o.zero v = true
    · simp [h, rotHit]
    · simp [h]

theorem sortWireHits_rot (k : Nat) (l : List (WireHit α)) :
    sortWireHits s (l.map (rotHit k)) = (sortWireHits s l).map (rotHit k) := by
  unfold sortWireHits
  rw [List.map_map, applyPerm_map]
  rfl

theorem matchAtT_rot (k : Nat) (idx : List Nat) (ins col : List (List α)) (t : Nat) :
    matchAtT o g s (idx.map fun w => (w + 8 * k) % 256) ins col t
      = (matchAtT o g s idx ins col t).map (rotAvalanche k) := by
  unfold matchAtT
  rw [wireHitsAtT_rot, List.isEmpty_map]
  by_cases h : (wireHitsAtT o idx ins t).isEmpty = true
  · simp [h]
  · rw [if_neg h, if_neg h, sortWireHits_rot, List.zipWith_map_left, List.map_zipWith]
    rfl

theorem matchColumn_rot (k : Nat) (idx : List Nat) (ins col : List (List α)) :
    matchColumn o g s (idx.map fun w => (w + 8 * k) % 256) ins col
      = (matchColumn o g s idx ins col).map (rotAvalanche k) := by
  unfold matchColumn
  rw [List.map_flatMap]
  apply flatMap_congr'
  intro t _
  exact matchAtT_rot o g s k idx ins col t

/-- The avalanches of pad column `c + k` of the rotated event. -/
theorem column_rot (F : RangesFacts) (ev : Event α) (k : Nat) (hf : false ∈ occupancy ev)
    (c : Nat) (hc : c < 32) :
    matchColumn o g s (columnWires ((c + k) % 32))
        ((columnWires ((c + k) % 32)).map (wireInput (assignments P (rot k ev))))
        (padInputs P (rot k ev) ((c + k) % 32))
      = (matchColumn o g s (columnWires c) ((columnWires c).map (wireInput (assignments P ev)))
          (padInputs P ev c)).map (rotAvalanche k) := by
  rw [padInputs_rot P ev c k hc, columnWires_rot c k hc, List.map_map, matchColumn_rot]
  congr 2
  apply List.map_congr_left
  intro w hw
  exact wireInput_rot P F ev k hf w (mem_columnWires_lt c hc w hw)

/-! ### 6. the main theorem -/

theorem avalanches_rot_of_facts (F : RangesFacts) (ev : Event α) (k : Nat)
    (hf : false ∈ occupancy ev) :
    (avalanches o g s P (rot k ev)).Perm ((avalanches o g s P ev).map (rotAvalanche k)) := by
  unfold avalanches
  refine (List.Perm.flatMap_right _ (padColumns_rot_perm P F ev k hf)).trans ?_
  rw [List.flatMap_map, List.map_flatMap]
  rw [flatMap_congr' (fun c hc => column_rot P o g s F ev k hf c ((mem_padColumns _ _).1 hc).1)]

theorem avalanches_rot_of
    (hrot : ∀ (occ : List Bool) (k : Nat), false ∈ occ →
      (blocks (rotOcc k occ)).Perm ((blocks occ).map (shiftBlock occ.length k)))
    (hdisj : ∀ occ : List Bool,
      ((contiguousRanges occ).flatMap (rangeToIndices occ.length)).Nodup)
    (hcover : ∀ (occ : List Bool) (w : Nat), (w < occ.length ∧ occ.getD w false = true) ↔
      ∃ r ∈ contiguousRanges occ, w ∈ rangeToIndices occ.length r) :
    ∀ (ev : Event α) (k : Nat), false ∈ occupancy ev →
      (avalanches o g s P (rot k ev)).Perm ((avalanches o g s P ev).map (rotAvalanche k)) :=
  fun ev k hf => avalanches_rot_of_facts P o g s ⟨hrot, hdisj, hcover⟩ ev k hf

/-- The hypothesis `false ∈ occupancy ev` is satisfiable by a non-trivial event (wires 3, 4 and
255 occupied). -/
example : false ∈ occupancy (⟨fun w => if w = 3 ∨ w = 4 ∨ w = 255 then some [1] else none,
    fun _ _ => none⟩ : Event Nat) := by decide +kernel

/-! ### 7. full occupancy: the key lemma fails -/

/-- Counter-model: the deconvolved input of a wire depends on its position inside the block
(as with the banded, non-circulant response matrix of the code). -/
def cmParams : Params Nat where
  deconvBlock := fun sigs => (List.range sigs.length).map fun j => [j]
  padDeconv := id

/-- All 256 wires occupied. -/
def cmEvent : Event Nat := ⟨fun _ => some [], fun _ _ => none⟩

theorem cm_occupancy : occupancy cmEvent = List.replicate 256 true := by decide +kernel

theorem cm_occupancy_rot : occupancy (rot 1 cmEvent) = List.replicate 256 true := by
  decide +kernel

theorem cm_ranges : contiguousRanges (List.replicate 256 true) = [(0, 256)] := by
  decide +kernel

theorem full_ring_not_equivariant_model :
    (∀ b ∈ occupancy cmEvent, b = true) ∧
    contiguousRanges (occupancy cmEvent) = [(0, 256)] ∧
    contiguousRanges (occupancy (rot 1 cmEvent)) = [(0, 256)] ∧
    wireInput (assignments cmParams (rot 1 cmEvent)) 8 = [8] ∧
    wireInput (assignments cmParams cmEvent) 0 = [0] ∧
    wireInput (assignments cmParams (rot 1 cmEvent)) ((0 + 8 * 1) % 256)
      ≠ wireInput (assignments cmParams cmEvent) 0 := by
  have h8 : wireInput (assignments cmParams (rot 1 cmEvent)) 8 = [8] := by
    unfold assignments
    rw [cm_occupancy_rot, cm_ranges]
    decide +kernel
  have h0 : wireInput (assignments cmParams cmEvent) 0 = [0] := by
    unfold assignments
    rw [cm_occupancy, cm_ranges]
    decide +kernel
  refine ⟨?_, ?_, ?_, h8, h0, ?_⟩
  · rw [cm_occupancy]; intro b hb; exact (List.mem_replicate.1 hb).2
  · rw [cm_occupancy, cm_ranges]
  · rw [cm_occupancy_rot, cm_ranges]
  · show wireInput (assignments cmParams (rot 1 cmEvent)) 8 ≠ _
    rw [h8, h0]; decide

end AlphaG.Matching
