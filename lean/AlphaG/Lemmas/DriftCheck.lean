import AlphaG.Model.Drift
/-
Integer-level checks of the generated drift tables (core Lean only; evaluated by the kernel in
`AlphaG/Generated/DriftTablesOk*.lean`). Every finite `f64` is `m · 2^e`; `dy b` is that value
scaled by `2^1074` (an integer for every finite double), so comparisons of table entries are
integer comparisons. `Lemmas/Drift.lean` transports the checks to the exact values in any
linear ordered field.
-/
namespace AlphaG.Drift

/-- biased exponent field of an `f64` bit pattern -/
def expField (b : Nat) : Nat := (b / 2 ^ 52) % 2048
/-- mantissa field -/
def manField (b : Nat) : Nat := b % 2 ^ 52
/-- sign bit -/
def signField (b : Nat) : Nat := (b / 2 ^ 63) % 2

/-- a 64-bit pattern of a finite double (not ±∞, not NaN) -/
def finiteBits (b : Nat) : Bool := decide (b < 2 ^ 64) && decide (expField b ≠ 2047)

/-- magnitude of a finite double times `2^1074` -/
def dyMag (b : Nat) : Nat :=
  if expField b = 0 then manField b else (2 ^ 52 + manField b) * 2 ^ (expField b - 1)

/-- value of a finite double times `2^1074` -/
def dy (b : Nat) : Int :=
  if signField b = 1 then -(dyMag b : Int) else (dyMag b : Int)

/-- adjacent knots: times strictly ascending, radii non-increasing, corrections non-decreasing -/
def checkAdj : List (Nat × Nat × Nat) → Bool
  | a :: b :: rest =>
    decide (dy a.1 < dy b.1) && decide (dy b.2.1 ≤ dy a.2.1) && decide (dy a.2.2 ≤ dy b.2.2)
      && checkAdj (b :: rest)
  | _ => true

def finiteKnot (k : Nat × Nat × Nat) : Bool := finiteBits k.1 && finiteBits k.2.1 && finiteBits k.2.2

def firstCorrZero : List (Nat × Nat × Nat) → Bool
  | k :: _ => decide (dy k.2.2 = 0)
  | [] => false

/-- one slice: at least two knots, all numbers finite, first correction 0, and `checkAdj` -/
def checkSlice (s : List (Nat × Nat × Nat)) : Bool :=
  decide (2 ≤ s.length) && s.all finiteKnot && firstCorrZero s && checkAdj s

def checkZAdj : List Nat → Bool
  | a :: b :: rest => decide (dy a < dy b) && checkZAdj (b :: rest)
  | _ => true

/-- z upper bounds: at least one, finite, positive, strictly ascending -/
def checkZ (zs : List Nat) : Bool :=
  decide (1 ≤ zs.length) && zs.all finiteBits && zs.all (fun z => decide (0 < dy z)) && checkZAdj zs

/-- the knots `j` listed for slice `i` -/
def exceptionsOf (l : List (Nat × Nat)) (i : Nat) : List Nat :=
  (l.filter fun e => e.1 == i).map (·.2)

/-- 8 ns step: every knot interval `j, j+1` (numbered from `j`) not listed in `exc` has
`|Δr| · 8 ns < 0.5 mm · Δt`, i.e. `|ΔR| · 16000 < ΔT · 10^9` on the scaled integers. -/
def checkStep : List (Nat × Nat × Nat) → Nat → List Nat → Bool
  | a :: b :: rest, j, exc =>
    (exc.contains j
      || (decide ((dy a.2.1 - dy b.2.1) * 16000 < (dy b.1 - dy a.1) * 1000000000)
          && decide ((dy b.2.1 - dy a.2.1) * 16000 < (dy b.1 - dy a.1) * 1000000000)))
      && checkStep (b :: rest) (j + 1) exc
  | _, _, _ => true

end AlphaG.Drift
