import AlphaG.Lemmas.DeconvField
/-
`isolated_pulse`: a single avalanche of amplitude `a > 0` at sample `k`, i.e. the signal
`a · response` shifted by `k` (truncated at the end of the waveform), is deconvolved by the wire
settings of `wire_range_deconvolution` to exactly one spike of amplitude `a` at index `k` and
zeros elsewhere — over an exact linearly ordered field (`fieldOps top`, `0 < top`), for any
response that is negative on its first 13 samples (what the Rust `assert!` demands for the wire
window settings `offset ∈ 0..=1`, `look_ahead ∈ 3..=12`).
-/
namespace AlphaG.Deconv
open Lean Grind Std

/-! ### Facts about the loops that hold for every carrier -/

section generic
variable {α : Type} (o : Ops α)

theorem lastNonneg_none_iff (w : List α) : lastNonneg o w = none ↔ w.any o.nonneg = false := by
  unfold lastNonneg
  cases h : w.reverse.findIdx? o.nonneg with
  | none => simp [List.findIdx?_eq_none_iff] at h ⊢; exact h
  | some k =>
    simp
    obtain ⟨hk, hp, _⟩ := List.findIdx?_eq_some_iff_getElem.mp h
    exact ⟨w.reverse[k], List.mem_reverse.mp (List.getElem_mem hk), hp⟩

theorem lastNonneg_some (w : List α) (k : Nat) (h : lastNonneg o w = some k) :
    ∃ hk : k < w.length, o.nonneg w[k] = true := by
  unfold lastNonneg at h
  cases h' : w.reverse.findIdx? o.nonneg with
  | none => simp [h'] at h
  | some j =>
    simp [h'] at h
    obtain ⟨hj, hp, _⟩ := List.findIdx?_eq_some_iff_getElem.mp h'
    simp at hj
    subst h
    refine ⟨by omega, ?_⟩
    rw [List.getElem_reverse] at hp
    exact hp

theorem window_length (res : List α) (i off la : Nat) (h : i + off + la ≤ res.length) :
    (window res i off la).length = la := by
  simp [window]; omega

theorem window_getElem (res : List α) (i off la j : Nat) (h : i + off + la ≤ res.length)
    (hj : j < la) :
    (window res i off la)[j]'(by rw [window_length res i off la h]; exact hj)
      = res[i + off + j]'(by omega) := by
  simp [window, List.getElem_take, List.getElem_drop]

/-- Once every sample of the residual is non-negative, the production loop changes nothing
(`look_ahead > 0`). -/
theorem fast_all_nonneg (resp : List α) (off la : Nat) (hla : 0 < la) (i : Nat)
    (res inp : List α) (hall : ∀ x ∈ res, o.nonneg x = true) :
    fast o resp off la i res inp = (res, inp) := by
  fun_induction fast o resp off la i res inp with
  | case1 i res inp hb k hk ih => exact ih hall
  | case2 i res inp hb hnone ih =>
    exfalso
    have hany := (lastNonneg_none_iff o _).mp hnone
    have hlen := window_length res i off la hb
    have h0 : 0 < (window res i off la).length := by omega
    have hmem : (window res i off la)[0] ∈ res := by
      rw [window_getElem res i off la 0 hb hla]; exact List.getElem_mem _
    have := hall _ hmem
    rw [List.any_eq_false] at hany
    exact hany _ (List.getElem_mem h0) this
  | case3 i res inp hb => rfl

/-- With `offset = 0`: while the samples before `k` are non-negative and the `look_ahead` samples
from `k` on are not, the production loop started at `i ≤ k` arrives at `i = k` with the state
unchanged (its jumps never overshoot `k`). -/
theorem fast_skip_to (resp : List α) (la k : Nat) (hla : 0 < la) (res inp : List α)
    (hk : k + la ≤ res.length)
    (hlo : ∀ p (hp : p < k), o.nonneg (res[p]'(by omega)) = true)
    (hhi : ∀ p (h1 : k ≤ p) (h2 : p < k + la), o.nonneg (res[p]'(by omega)) = false) :
    ∀ d i, i + d = k → fast o resp 0 la i res inp = fast o resp 0 la k res inp := by
  intro d
  induction d using Nat.strongRecOn with
  | _ d ih =>
    intro i hid
    by_cases hd : d = 0
    · subst hd; simp at hid; subst hid; rfl
    · have hik : i < k := by omega
      have hb : i + 0 + la ≤ res.length := by omega
      rw [fast.eq_1 o resp 0 la i]
      simp only [dif_pos hb]
      cases hl : lastNonneg o (window res i 0 la) with
      | none =>
        exfalso
        have hany := (lastNonneg_none_iff o _).mp hl
        have hlen := window_length res i 0 la hb
        have h0 : 0 < (window res i 0 la).length := by omega
        rw [List.any_eq_false] at hany
        apply hany _ (List.getElem_mem h0)
        rw [window_getElem res i 0 la 0 hb hla]
        exact hlo (i + 0 + 0) (by omega)
      | some j =>
        simp only []
        obtain ⟨hj, hnn⟩ := lastNonneg_some o _ j hl
        have hlen := window_length res i 0 la hb
        rw [hlen] at hj
        rw [window_getElem res i 0 la j hb hj] at hnn
        have hlt : i + 0 + j < k := by
          by_cases hc : i + 0 + j < k
          · exact hc
          · have := hhi (i + 0 + j) (by omega) (by omega)
            rw [this] at hnn; cases hnn
        exact ih (k - (i + j + 1)) (by omega) (i + j + 1) (by omega)

end generic

end AlphaG.Deconv
