import AlphaG.Lemmas.DeconvField
/-
`isolated_pulse`: a single avalanche of amplitude `a > 0` at sample `k`, i.e. the signal
`a · response` shifted by `k` (truncated at the end of the waveform), is deconvolved by the wire
settings of `wire_range_deconvolution` to exactly one spike of amplitude `a` at index `k` and
zeros elsewhere — over an exact linearly ordered field (`fieldOps top`, `0 < top`), for any
response that is negative on its first 13 samples (what the Rust `assert!` demands for the wire
window settings `offset ∈ 0..=1`, `look_ahead ∈ 3..=12`).
-/
namespace AlphaG.Deconv
open Lean Grind Std

/-! ### Facts about the loops that hold for every carrier -/

section generic
variable {α : Type} (o : Ops α)

private theorem lastNonneg_none_iff (w : List α) : lastNonneg o w = none ↔ w.any o.nonneg = false := by
  unfold lastNonneg
  cases h : w.reverse.findIdx? o.nonneg with
  | none => simp [List.findIdx?_eq_none_iff] at h ⊢; exact h
  | some k =>
    simp
    obtain ⟨hk, hp, _⟩ := List.findIdx?_eq_some_iff_getElem.mp h
    exact ⟨w.reverse[k], List.mem_reverse.mp (List.getElem_mem hk), hp⟩

private theorem lastNonneg_some (w : List α) (k : Nat) (h : lastNonneg o w = some k) :
    ∃ hk : k < w.length, o.nonneg w[k] = true := by
  unfold lastNonneg at h
  cases h' : w.reverse.findIdx? o.nonneg with
  | none => simp [h'] at h
  | some j =>
    simp [h'] at h
    obtain ⟨hj, hp, _⟩ := List.findIdx?_eq_some_iff_getElem.mp h'
    simp at hj
    subst h
    refine ⟨by omega, ?_⟩
    rw [List.getElem_reverse] at hp
    exact hp

private theorem window_length (res : List α) (i off la : Nat) (h : i + off + la ≤ res.length) :
    (window res i off la).length = la := by
  simp [window]; omega

private theorem window_getElem (res : List α) (i off la j : Nat) (h : i + off + la ≤ res.length)
    (hj : j < la) :
    (window res i off la)[j]'(by rw [window_length res i off la h]; exact hj)
      = res[i + off + j]'(by omega) := by
  simp [window, List.getElem_take, List.getElem_drop]

/-- Once every sample of the residual is non-negative, the production loop changes nothing
(`look_ahead > 0`). -/
private theorem fast_all_nonneg (resp : List α) (off la : Nat) (hla : 0 < la) (i : Nat)
    (res inp : List α) (hall : ∀ x ∈ res, o.nonneg x = true) :
    fast o resp off la i res inp = (res, inp) := by
  fun_induction fast o resp off la i res inp with
  | case1 i res inp hb k hk ih => exact ih hall
  | case2 i res inp hb hnone ih =>
    exfalso
    have hany := (lastNonneg_none_iff o _).mp hnone
    have hlen := window_length res i off la hb
    have h0 : 0 < (window res i off la).length := by omega
    have hmem : (window res i off la)[0] ∈ res := by
      rw [window_getElem res i off la 0 hb hla]; exact List.getElem_mem _
    have := hall _ hmem
    rw [List.any_eq_false] at hany
    exact hany _ (List.getElem_mem h0) this
  | case3 i res inp hb => rfl

/-- With `offset = 0`: while the samples before `k` are non-negative and the `look_ahead` samples
from `k` on are not, the production loop started at `i ≤ k` arrives at `i = k` with the state
unchanged (its jumps never overshoot `k`). -/
private theorem fast_skip_to (resp : List α) (la k : Nat) (hla : 0 < la) (res inp : List α)
    (hk : k + la ≤ res.length)
    (hlo : ∀ p (hp : p < k), o.nonneg (res[p]'(by omega)) = true)
    (hhi : ∀ p (_h1 : k ≤ p) (h2 : p < k + la), o.nonneg (res[p]'(by omega)) = false) :
    ∀ d i, i + d = k → fast o resp 0 la i res inp = fast o resp 0 la k res inp := by
  intro d
  induction d using Nat.strongRecOn with
  | _ d ih =>
    intro i hid
    by_cases hd : d = 0
    · subst hd; simp at hid; subst hid; rfl
    · have hik : i < k := by omega
      have hb : i + 0 + la ≤ res.length := by omega
      rw [fast.eq_1 o resp 0 la i]
      simp only [dif_pos hb]
      cases hl : lastNonneg o (window res i 0 la) with
      | none =>
        exfalso
        have hany := (lastNonneg_none_iff o _).mp hl
        have hlen := window_length res i 0 la hb
        have h0 : 0 < (window res i 0 la).length := by omega
        rw [List.any_eq_false] at hany
        apply hany _ (List.getElem_mem h0)
        rw [window_getElem res i 0 la 0 hb hla]
        exact hlo (i + 0 + 0) (by omega)
      | some j =>
        simp only []
        obtain ⟨hj, hnn⟩ := lastNonneg_some o _ j hl
        have hlen := window_length res i 0 la hb
        rw [hlen] at hj
        rw [window_getElem res i 0 la j hb hj] at hnn
        have hlt : i + 0 + j < k := by
          by_cases hc : i + 0 + j < k
          · exact hc
          · have := hhi (i + 0 + j) (by omega) (by omega)
            rw [this] at hnn; cases hnn
        exact ih (k - (i + j + 1)) (by omega) (i + j + 1) (by omega)

private theorem subScaled_getElem? (v : α) (ss rs : List α) (j : Nat) :
    (subScaled o v ss rs)[j]? =
      (ss[j]?).map fun s => match rs[j]? with
        | some r => o.sub s (o.mul v r)
        | none => s := by
  induction ss generalizing rs j with
  | nil => cases rs <;> simp [subScaled]
  | cons s ss ih =>
    cases rs with
    | nil => simp [subScaled]
    | cons r rs => cases j <;> simp [subScaled, ih]

private theorem applyAt_getElem? (res resp : List α) (i : Nat) (v : α) (j : Nat) :
    (applyAt o res resp i v)[j]? =
      if j < i then res[j]? else
        (res[j]?).map fun s => match resp[j - i]? with
          | some r => o.sub s (o.mul v r)
          | none => s := by
  unfold applyAt
  by_cases hj : j < i
  · simp only [hj, if_true]
    by_cases hl : j < res.length
    · rw [List.getElem?_append_left (by simp; omega)]; simp [hj]
    · rw [List.getElem?_eq_none (by simp [subScaled_length]; omega),
        List.getElem?_eq_none (by omega)]
  · simp only [hj, if_false]
    by_cases hl : i ≤ res.length
    · rw [List.getElem?_append_right (by simp; omega), subScaled_getElem?]
      have e1 : (res.take i).length = i := by simp; omega
      have e2 : i + (j - i) = j := by omega
      simp only [e1, List.getElem?_drop, e2]
    · have e : res[j]? = none := List.getElem?_eq_none (by omega)
      rw [List.getElem?_eq_none (by simp [subScaled_length]; omega), e]; rfl

/-- The guards of `nn_greedy_deconvolution` pass when the response is negative on the window
and `look_ahead > 0`. -/
private theorem nnGreedy_ok (b : Bool) (signal resp : List α) (off la : Nat)
    (hr : ResponseNeg o resp off la) (hla : 0 < la) :
    nnGreedy o b signal resp off la =
      .ok ((loopResult o b signal resp off la).1,
        sumSq o (loopResult o b signal resp off la).1,
        (loopResult o b signal resp off la).2) := by
  obtain ⟨hlen, hneg⟩ := hr
  unfold nnGreedy
  rw [if_neg (by omega), if_neg (by omega), if_neg (by simpa [List.all_eq_true] using hneg),
    if_neg (by omega)]

/-- Negative on the first 13 samples ⇒ negative on every window the wire settings use. -/
theorem responseNeg_of_take13 (resp : List α) (h13 : 13 ≤ resp.length)
    (hneg : ∀ r ∈ resp.take 13, o.isNeg r = true) (off la : Nat) (h : off + la ≤ 13) :
    ResponseNeg o resp off la := by
  refine ⟨by omega, ?_⟩
  intro r hr
  apply hneg
  unfold respWindow at hr
  obtain ⟨j, hj, rfl⟩ := List.mem_iff_getElem.mp hr
  simp only [List.length_take, List.length_drop] at hj
  rw [List.mem_iff_getElem]
  refine ⟨off + j, by simp; omega, ?_⟩
  simp [List.getElem_take, List.getElem_drop]

end generic

/-! ### The isolated pulse over an ordered field -/

/-- The signal of one avalanche of amplitude `a` at sample `k`: `a · response` shifted by `k`,
truncated at the end of the waveform (`n` samples), zero before `k` and after the end of the
response. -/
def pulse {F : Type} [Field F] (n k : Nat) (a : F) (resp : List F) : List F :=
  (List.range n).map fun j =>
    if k ≤ j then (match resp[j - k]? with | some r => a * r | none => 0) else 0

/-- One spike of amplitude `a` at index `k`. -/
def spike {F : Type} [Field F] (n k : Nat) (a : F) : List F :=
  (List.range n).map fun j => if j = k then a else 0

section fieldBasic
variable {F : Type} [Field F]

@[simp] theorem pulse_length (n k : Nat) (a : F) (resp : List F) :
    (pulse n k a resp).length = n := by simp [pulse]

theorem pulse_getElem (n k : Nat) (a : F) (resp : List F) (j : Nat) (hj : j < n) :
    (pulse n k a resp)[j]'(by simpa using hj) =
      if k ≤ j then (match resp[j - k]? with | some r => a * r | none => 0) else 0 := by
  simp [pulse]

theorem pulse_getElem? (n k : Nat) (a : F) (resp : List F) (j : Nat) :
    (pulse n k a resp)[j]? =
      if j < n then
        some (if k ≤ j then (match resp[j - k]? with | some r => a * r | none => 0) else 0)
      else none := by
  by_cases hj : j < n
  · rw [List.getElem?_eq_getElem (by simpa using hj), pulse_getElem n k a resp j hj, if_pos hj]
  · rw [List.getElem?_eq_none (by simpa using hj), if_neg hj]

theorem set_zeros_eq_spike (n k : Nat) (a : F) :
    (List.replicate n (0 : F)).set k a = spike n k a := by
  apply List.ext_getElem?
  intro j
  simp only [spike, List.getElem?_set, List.getElem?_map,
    List.getElem?_replicate, List.length_replicate]
  by_cases hj : j < n
  · by_cases hjk : k = j
    · subst hjk; simp [hj]
    · have : ¬ j = k := fun h => hjk h.symm
      simp [hj, hjk, this]
  · by_cases hjk : k = j
    · subst hjk; simp [hj]
    · simp [hj, hjk]

end fieldBasic

section field
variable {F : Type} [Field F] [LE F] [LT F] [LawfulOrderLT F] [IsLinearOrder F] [OrderedRing F]
  [DecidableLT F] [DecidableLE F]

theorem sumSq_nonneg_aux (top : F) (res : List F) (acc : F) (h : 0 ≤ acc) :
    0 ≤ res.foldl (fun acc x => (fieldOps top).add acc ((fieldOps top).mul x x)) acc := by
  induction res generalizing acc with
  | nil => exact h
  | cons x xs ih =>
    apply ih
    have : 0 ≤ x * x := by have := OrderedRing.sq_nonneg (a := x); grind
    simp only [fieldOps_add, fieldOps_mul]; grind

/-- A sum of squares is non-negative. -/
theorem sumSq_nonneg (top : F) (res : List F) : 0 ≤ sumSq (fieldOps top) res :=
  sumSq_nonneg_aux top res 0 (by grind)

omit [LawfulOrderLT F] [IsLinearOrder F] [OrderedRing F] in
theorem sumSq_zeros (top : F) (n : Nat) :
    sumSq (fieldOps top) (List.replicate n (0 : F)) = 0 := by
  unfold sumSq
  simp only [fieldOps_sumInit]
  induction n with
  | zero => rfl
  | succ n ih =>
    simp only [List.replicate_succ, List.foldl_cons, fieldOps_add, fieldOps_mul]
    have : (0 : F) + 0 * 0 = 0 := by grind
    rw [this]; exact ih

/-- Once the best sum of squares is `0`, no grid point whose guards pass can replace it
(`residual < best_residual` is strict and sums of squares are `≥ 0`). -/
theorem lsLoop_keep (top : F) (b : Bool) (signal resp : List F) (g : List (Nat × Nat))
    (hg : ∀ p ∈ g, ResponseNeg (fieldOps top) resp p.1 p.2 ∧ 0 < p.2) (best : List F) :
    lsLoop (fieldOps top) b signal resp g 0 best = .ok best := by
  induction g with
  | nil => rfl
  | cons p rest ih =>
    obtain ⟨off, la⟩ := p
    obtain ⟨hr, hla⟩ := hg (off, la) (List.mem_cons_self ..)
    have := sumSq_nonneg top (loopResult (fieldOps top) b signal resp off la).1
    have hlt : (fieldOps top).lt (sumSq (fieldOps top)
        (loopResult (fieldOps top) b signal resp off la).1) 0 = false := by
      simp only [fieldOps_lt, decide_eq_false_iff_not]; grind
    simp only [lsLoop, nnGreedy_ok (fieldOps top) b signal resp off la hr hla, hlt,
      Bool.false_eq_true, if_false]
    exact ih fun p hp => hg p (List.mem_cons_of_mem _ hp)

theorem zipWith_div_pulse (top a : F) (rs : List F) (hneg : ∀ r ∈ rs, r < 0) :
    List.zipWith (fieldOps top).div (rs.map (a * ·)) rs = List.replicate rs.length a := by
  induction rs with
  | nil => rfl
  | cons r rs ih =>
    have hr : r < 0 := hneg r (List.mem_cons_self ..)
    have : a * r / r = a := by grind
    simp only [List.map_cons, List.zipWith_cons_cons, fieldOps_div, this, List.length_cons,
      List.replicate_succ]
    rw [ih fun r hr => hneg r (List.mem_cons_of_mem _ hr)]

omit [LawfulOrderLT F] [IsLinearOrder F] [OrderedRing F] in
theorem foldl_min_replicate (top a : F) (m : Nat) :
    (List.replicate m a).foldl (fieldOps top).min a = a := by
  induction m with
  | zero => rfl
  | succ m ih => simp only [List.replicate_succ, List.foldl_cons, fieldOps_min, ite_self, ih]

/-- `min_j (a·r_j / r_j) = a`. -/
theorem stepVal_pulse (top a : F) (rs : List F) (hne : rs ≠ []) (hneg : ∀ r ∈ rs, r < 0) :
    stepVal (fieldOps top) (rs.map (a * ·)) rs = a := by
  unfold stepVal
  rw [zipWith_div_pulse top a rs hneg]
  cases rs with
  | nil => exact absurd rfl hne
  | cons r rs => simp only [List.length_cons, List.replicate_succ]; exact foldl_min_replicate ..

omit [LE F] [LT F] [LawfulOrderLT F] [IsLinearOrder F] [OrderedRing F] [DecidableLT F]
  [DecidableLE F] in
theorem window_pulse (n k la : Nat) (a : F) (resp : List F) (hk : k + la ≤ n)
    (hla : la ≤ resp.length) :
    window (pulse n k a resp) k 0 la = (resp.take la).map (a * ·) := by
  have hb : k + 0 + la ≤ (pulse n k a resp).length := by simpa using hk
  apply List.ext_getElem
  · rw [window_length _ _ _ _ hb]; simp; omega
  · intro j h1 h2
    rw [window_length _ _ _ _ hb] at h1
    rw [window_getElem _ _ _ _ _ hb h1, pulse_getElem n k a resp (k + 0 + j) (by omega)]
    have e2 : resp[j]? = some (resp[j]'(by omega)) := List.getElem?_eq_getElem (by omega)
    simp [e2]

omit [LawfulOrderLT F] [IsLinearOrder F] [OrderedRing F] in
/-- Subtracting `a · response` at `k` from the pulse leaves the zero residual. -/
theorem applyAt_pulse (top : F) (n k : Nat) (a : F) (resp : List F) :
    applyAt (fieldOps top) (pulse n k a resp) resp k a = List.replicate n (0 : F) := by
  apply List.ext_getElem?
  intro j
  rw [applyAt_getElem?, pulse_getElem?, List.getElem?_replicate]
  by_cases hj : j < n
  · simp only [hj, if_true]
    by_cases hjk : j < k
    · simp only [hjk, if_true, show ¬ k ≤ j by omega, if_false]
    · simp only [hjk, if_false, show k ≤ j by omega, if_true, Option.map_some]
      cases resp[j - k]? with
      | none => rfl
      | some r =>
        simp only [fieldOps_sub, fieldOps_mul]
        congr 1; grind
  · simp only [hj, if_false]
    split <;> rfl

/-- One grid point `(offset, look_ahead) = (0, la)`: the residual is identically zero, the sum
of squares is `0` and the recovered input is the spike. -/
theorem nnGreedy_pulse (top : F) (n k la : Nat) (a : F) (resp : List F) (ha : 0 < a)
    (h13 : 13 ≤ resp.length) (hneg : ∀ r ∈ resp.take 13, r < 0)
    (hla : 0 < la) (hla13 : la ≤ 13) (hk : k + la ≤ n) :
    nnGreedy (fieldOps top) true (pulse n k a resp) resp 0 la
      = .ok (List.replicate n 0, 0, spike n k a) := by
  have hneg' : ∀ r ∈ resp.take 13, (fieldOps top).isNeg r = true := by
    intro r hr; simpa using hneg r hr
  have hRN := responseNeg_of_take13 (fieldOps top) resp h13 hneg' 0 la (by omega)
  have hnegla : ∀ r ∈ resp.take la, r < 0 := by
    intro r hr
    apply hneg
    obtain ⟨j, hj, rfl⟩ := List.mem_iff_getElem.mp hr
    simp only [List.length_take] at hj
    rw [List.mem_iff_getElem]
    exact ⟨j, by simp; omega, by simp [List.getElem_take]⟩
  have hloop : loopResult (fieldOps top) true (pulse n k a resp) resp 0 la
      = (List.replicate n 0, spike n k a) := by
    simp only [loopResult, if_true, pulse_length, fieldOps_zero]
    -- phase 1: skip to `k`
    rw [fast_skip_to (fieldOps top) resp la k hla (pulse n k a resp) (List.replicate n 0)
      (by simpa using hk) ?lo ?hi k 0 (by omega)]
    case lo =>
      intro p hp
      rw [pulse_getElem n k a resp p (by omega)]
      simp [show ¬ k ≤ p by omega]
    case hi =>
      intro p h1 h2
      rw [pulse_getElem n k a resp p (by omega)]
      have e2 : resp[p - k]? = some (resp[p - k]'(by omega)) :=
        List.getElem?_eq_getElem (by omega)
      have hr : resp[p - k]'(by omega) < 0 := by
        apply hneg
        rw [List.mem_iff_getElem]
        exact ⟨p - k, by simp; omega, by simp [List.getElem_take]⟩
      have := OrderedRing.mul_neg_of_pos_of_neg ha hr
      simp only [h1, if_true, e2, fieldOps_nonneg, decide_eq_false_iff_not]
      grind
    -- phase 2: the step at `k`
    have hb : k + 0 + la ≤ (pulse n k a resp).length := by simpa using hk
    rw [fast.eq_1]
    simp only [dif_pos hb, window_pulse n k la a resp hk (by omega)]
    have hnone : lastNonneg (fieldOps top) ((resp.take la).map (a * ·)) = none := by
      rw [lastNonneg_none_iff, List.any_eq_false]
      intro x hx
      obtain ⟨r, hr, rfl⟩ := List.mem_map.mp hx
      have := OrderedRing.mul_neg_of_pos_of_neg ha (hnegla r hr)
      simp only [fieldOps_nonneg, decide_eq_true_eq]
      grind
    have hrw : respWindow resp 0 la = resp.take la := by simp [respWindow]
    have hne : resp.take la ≠ [] := by
      intro h
      have := congrArg List.length h
      rw [List.length_take, List.length_nil] at this; omega
    simp only [hnone, hrw, stepVal_pulse top a _ hne hnegla, applyAt_pulse, set_zeros_eq_spike]
    -- phase 3: the residual is zero, nothing more happens
    apply fast_all_nonneg (fieldOps top) resp 0 la hla
    intro x hx
    rw [(List.mem_replicate.mp hx).2]
    simp only [fieldOps_nonneg, decide_eq_true_eq]
    grind
  rw [nnGreedy_ok (fieldOps top) true _ resp 0 la hRN hla, hloop]
  simp only [sumSq_zeros]

/-- The first grid point alone (the statement `isolated_pulse` is built on). -/
theorem isolated_pulse_partial (top : F) (n k : Nat) (a : F) (resp : List F) (ha : 0 < a)
    (h13 : 13 ≤ resp.length) (hneg : ∀ r ∈ resp.take 13, r < 0) (hk : k + 3 ≤ n) :
    nnGreedy (fieldOps top) true (pulse n k a resp) resp 0 3
      = .ok (List.replicate n 0, 0, (List.range n).map fun j => if j = k then a else 0) :=
  nnGreedy_pulse top n k 3 a resp ha h13 hneg (by omega) (by omega) hk

theorem grid_wire_head : grid 0 1 3 12 = (0, 3) :: (grid 0 1 3 12).tail := by decide

theorem grid_wire_mem : ∀ p ∈ grid 0 1 3 12, p.1 + p.2 ≤ 13 ∧ 0 < p.2 := by decide

/-- **isolated_pulse**: the wire deconvolution of a single avalanche of amplitude `a > 0` at
sample `k` (at least 3 samples before the end of the waveform) is exactly one spike `a` at
index `k`. -/
theorem isolated_pulse (top : F) (htop : 0 < top) (n k : Nat) (a : F) (resp : List F)
    (ha : 0 < a) (h13 : 13 ≤ resp.length) (hneg : ∀ r ∈ resp.take 13, r < 0)
    (hk : k + 3 ≤ n) :
    wireDeconv (fieldOps top) resp (pulse n k a resp)
      = .ok ((List.range n).map fun j => if j = k then a else 0) := by
  have hneg' : ∀ r ∈ resp.take 13, (fieldOps top).isNeg r = true := by
    intro r hr; simpa using hneg r hr
  unfold wireDeconv lsDeconv lsDeconvWith
  rw [grid_wire_head]
  have hlt : (fieldOps top).lt 0 (fieldOps top).inf = true := by simpa using htop
  simp only [lsLoop, isolated_pulse_partial top n k a resp ha h13 hneg hk, hlt, if_true]
  apply lsLoop_keep
  intro p hp
  obtain ⟨h1, h2⟩ := grid_wire_mem p (List.mem_of_mem_tail hp)
  exact ⟨responseNeg_of_take13 (fieldOps top) resp h13 hneg' p.1 p.2 h1, h2⟩

/-- The form in the property text (`k + 18 ≤ n`: the whole 13-sample front of the response and
more fits in the waveform); a special case of `isolated_pulse`. -/
theorem isolated_pulse_18 (top : F) (htop : 0 < top) (n k : Nat) (a : F) (resp : List F)
    (ha : 0 < a) (h13 : 13 ≤ resp.length) (hneg : ∀ r ∈ resp.take 13, r < 0)
    (hk : k + 18 ≤ n) :
    wireDeconv (fieldOps top) resp (pulse n k a resp)
      = .ok ((List.range n).map fun j => if j = k then a else 0) :=
  isolated_pulse top htop n k a resp ha h13 hneg (by omega)

/-- A block of one wire: with the `1×1` solve `A = [1]` the block deconvolution returns the
spike on that wire, whatever its number `w` (position on the ring) is. -/
theorem isolated_pulse_block (top : F) (htop : 0 < top) (n k : Nat) (a : F) (resp : List F)
    (ha : 0 < a) (h13 : 13 ≤ resp.length) (hneg : ∀ r ∈ resp.take 13, r < 0)
    (hk : k + 3 ≤ n)
    (cholSolve : Nat → Nat → (Nat → Nat → F) → (Nat → Nat → F))
    (hc : ∀ i y r c, cholSolve i 1 y r c = y r c) (w : Nat) :
    wireRangeDeconv (fieldOps top) cholSolve resp [(w, pulse n k a resp)]
      = .ok [(w, (List.range n).map fun j => if j = k then a else 0)] := by
  have hsig : ((List.range (maxLen [pulse n k a resp])).map fun row =>
      cholSolve (maxLen [pulse n k a resp]) (0 + 1)
        (yMatrix (fieldOps top) [pulse n k a resp]) row 0) = pulse n k a resp := by
    have hm : maxLen [pulse n k a resp] = n := by simp [maxLen]
    rw [hm]
    apply List.ext_getElem
    · simp
    · intro j h1 h2
      simp only [List.length_map, List.length_range] at h1
      simp [hc, yMatrix, List.getD_eq_getElem?_getD, h1]
  simp only [wireRangeDeconv, wireSignalsDeconv, List.map_cons, List.map_nil, List.isEmpty_cons,
    Bool.false_eq_true, if_false, List.length_cons, List.length_nil]
  have hr1 : List.range (0 + 1) = [0] := rfl
  simp only [hr1, List.map_cons, List.map_nil]
  rw [hsig, isolated_pulse top htop n k a resp ha h13 hneg hk]
  rfl

end field

/-- Non-vacuity: a concrete response over `Rat` with 13 negative leading samples (and a positive
tail), `n = 20`, `k = 4`, amplitude `3`, `top = 10^6`. -/
example :
    wireDeconv (fieldOps (1000000 : Rat))
        [-1, -8, -20, -30, -31, -27, -21, -15, -10, -7, -5, -3, -2, 1, 2, 1]
        (pulse 20 4 (3 : Rat)
          [-1, -8, -20, -30, -31, -27, -21, -15, -10, -7, -5, -3, -2, 1, 2, 1])
      = .ok ((List.range 20).map fun j => if j = 4 then (3 : Rat) else 0) :=
  isolated_pulse 1000000 (by decide) 20 4 3 _ (by decide) (by decide) (by decide) (by decide)

end AlphaG.Deconv
