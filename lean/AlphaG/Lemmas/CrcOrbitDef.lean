/-
The zero-input map of the CRC-32C register on natural numbers (`zN`, the image of
`Crc.step · false` under `BitVec.toNat`) and a checker `walk` that follows its orbit while
testing that the state 1 is not met. Used by the kernel-evaluated segments of
`CrcOrbitA … CrcOrbitD` and tied to the `BitVec` register in `CrcOrbit.lean`.
Natural numbers are used because the kernel evaluates `Nat` bit operations natively.
-/
namespace AlphaG.Crc

/-- `(s >>> 1) ^^^ (if lsb s then POLY else 0)` on natural numbers. -/
def zN (s : Nat) : Nat := (s >>> 1) ^^^ (if s % 2 = 1 then 0x82F63B78 else 0)

/-- `walk s n = some t`: none of `zN s, …, zN^n s` is 0 or 1, and `zN^n s = t`.
The state is forced to a literal at every step by the `match` (the kernel evaluates the
discriminant), which keeps kernel evaluation linear in `n`. -/
def walk : Nat → Nat → Option Nat
  | s, 0 => some s
  | s, n + 1 =>
    match zN s with
    | 0 => none
    | 1 => none
    | t + 2 => walk (t + 2) n

end AlphaG.Crc

/-
Junction states of `CrcOrbitA … D` were produced by this script (they are only *checked*
here; a wrong literal makes `decide +kernel` fail):

    P = 0x82F63B78
    z = lambda s: (s >> 1) ^ (P if s & 1 else 0)
    s, js = 1, [1]
    for k in range(1, 16 * 32800 + 1):
        s = z(s); assert s not in (0, 1)
        if k % 32800 == 0: js.append(s)
    # orbit_seg<i> : walk js[i] 32800 = some js[i+1]
-/
