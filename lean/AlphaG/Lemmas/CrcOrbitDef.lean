/-
The zero-input map of the CRC-32C register on natural numbers (`zN`, the image of
`Crc.step · false` under `BitVec.toNat`) and a checker `walk` that follows its orbit while
testing that the state 1 is not met. Used by the kernel-evaluated segments of
`CrcOrbitA … CrcOrbitD` and tied to the `BitVec` register in `CrcOrbit.lean`.
Natural numbers are used because the kernel evaluates `Nat` bit operations natively.
-/
namespace AlphaG.Crc

/-- `(s >>> 1) ^^^ (if lsb s then POLY else 0)` on natural numbers. -/
def zN (s : Nat) : Nat := (s >>> 1) ^^^ (if s % 2 = 1 then 0x82F63B78 else 0)

/-- `walk s n = some t`: none of `s, zN s, …, zN^(n-1) s` equals 1, and `zN^n s = t`. -/
def walk : Nat → Nat → Option Nat
  | s, 0 => some s
  | s, n + 1 => if s = 1 then none else walk (zN s) n

end AlphaG.Crc
