import AlphaG.Lemmas.EventGroups
/-
Declarative acceptance predicate of `try_from_banks` (state-free, order-free) and its necessity:
a successful build satisfies it. Sufficiency is in Lemmas/EventSuff.lean.
-/
namespace AlphaG.Event
open AlphaG AlphaG.Generated AlphaG.Maps

variable {α : Type} (ops : Ops α)

/-- The `Adc32BankName` of a bank, as (board row, channel). -/
def wireName (b : Bank) : Option (Nat × Nat) :=
  match BankName.parseBankName b.1 with
  | .ok nm =>
    match nm.kind with
    | .adc32 => some (nm.board, nm.channel)
    | _ => none
  | _ => none

/-- An anode-wire bank that is fine on its own: well-formed packet of an anode-wire channel that
agrees with the bank name, and — if it carries samples — a wire and a calibration for it. -/
def WireFine (run : Nat) (nm : BankName.Name) (data : List UInt8) : Prop :=
  ∃ p ch, Adc.decodeAdcPacket data = .ok p ∧ p.channelId = .a32 ch
    ∧ (alpha16Boards[nm.board]?, nm.channel) = (boardOf nm p, ch)
    ∧ (p.waveform ≠ [] → ∃ w bl g d, wirePosition run (a16Row (boardOf nm p)) ch = .ok w
        ∧ wireBaseline run w = .ok bl ∧ wireGainBits run w = .ok g ∧ wireDelay run = .ok d)

/-- A bank that is fine on its own. -/
def BankFine (run : Nat) (b : Bank) : Prop :=
  ∃ nm, BankName.parseBankName b.1 = .ok nm
    ∧ (nm.kind = .adc32 → WireFine run nm b.2)
    ∧ (nm.kind = .padwing → ∃ c, Chunk.decodeChunk b.2 = .ok c
          ∧ Chunk.boardOfDeviceId c.deviceId = padwingBoards[nm.board]?)
    ∧ (nm.kind = .trg → ∃ p, Trg.decode b.2 = .ok p)

/-- A sent pad channel that has a waveform, a pad and a calibration. -/
def ChanFine (run : Nat) (k : Key) (p : Pwb.PwbPacket) (n : Nat) : Prop :=
  ∃ wf pos bl g d, Pwb.waveformAt p (.pad n) = .ok (some wf)
    ∧ padPosition run (keyRow k) (keyChip k) n = .ok pos
    ∧ padBaseline run pos.1 pos.2 = .ok bl ∧ padGainBits run pos.1 pos.2 = .ok g
    ∧ padDelay run = .ok d

/-- A group of chunks that is fine on its own: reassembles into a packet that names the board and
chip of its chunks, every sent pad channel is fine. -/
def GroupFine (run : Nat) (g : Group) : Prop :=
  ∃ p, Pwb.reassemble g.2 = .ok p ∧ some (packetBoard p) = g.1.1
    ∧ Chunk.afterOfNat p.afterId = g.1.2
    ∧ ∀ n, Pwb.ChannelId.pad n ∈ p.channelsSent → ChanFine run g.1 p n

/-- **Acceptance**: every bank is fine, no anode-wire bank name occurs twice, there is exactly one
TRG bank, every (board, chip) group of chunks is fine. -/
structure Accepts (run : Nat) (banks : List Bank) : Prop where
  fine : ∀ b ∈ banks, BankFine run b
  names : (banks.filterMap wireName).Nodup
  trg : (banks.filterMap trgOf).length = 1
  groups : ∀ g ∈ groupsOf banks, GroupFine run g

/-! ### Necessity -/

theorem bankStep_fine {run : Nat} {b : Bank} {st st' : St α} (h : bankStep ops run b st = .ok st') :
    BankFine run b := by
  obtain ⟨nm, hnm, hcase⟩ := bankStep_ok ops h
  refine ⟨nm, hnm, ?_, ?_, ?_⟩
  · intro hk
    rcases hcase with ⟨_, hb⟩ | ⟨hk', _⟩ | ⟨hk', _⟩ | ⟨h1, _⟩
    · obtain ⟨p, hp, hpk⟩ := wireBank_ok ops hb
      obtain ⟨ch, hch, _, hid, hwf⟩ := wirePacket_ok ops hpk
      refine ⟨p, ch, hp, hch, hid, fun hne => ?_⟩
      rcases hwf with ⟨he, _⟩ | ⟨_, hstore⟩
      · exact absurd he hne
      · obtain ⟨w, bl, g, d, hpos, _, _, hbl, hg, hd, _⟩ := wireStore_ok ops hstore
        exact ⟨w, bl, g, d, hpos, hbl, hg, hd⟩
    · rw [hk] at hk'; cases hk'
    · rw [hk] at hk'; cases hk'
    · exact absurd hk h1
  · intro hk
    rcases hcase with ⟨hk', _⟩ | ⟨_, hb⟩ | ⟨hk', _⟩ | ⟨_, h2, _⟩
    · rw [hk] at hk'; cases hk'
    · obtain ⟨c, hc, hbd, _⟩ := padwingBank_ok hb
      exact ⟨c, hc, hbd⟩
    · rw [hk] at hk'; cases hk'
    · exact absurd hk h2
  · intro hk
    rcases hcase with ⟨hk', _⟩ | ⟨hk', _⟩ | ⟨_, hb⟩ | ⟨_, _, h3, _⟩
    · rw [hk] at hk'; cases hk'
    · rw [hk] at hk'; cases hk'
    · obtain ⟨p, hp, _, _⟩ := trgBank_ok hb
      exact ⟨p, hp⟩
    · exact absurd hk h3

theorem wireName_of_kind {b : Bank} {nm : BankName.Name}
    (hp : BankName.parseBankName b.1 = .ok nm) :
    wireName b = if nm.kind = .adc32 then some (nm.board, nm.channel) else none := by
  unfold wireName
  rw [hp]
  cases hk : nm.kind <;> simp [hk]

/-- `wire_bank_names` is the list of the anode-wire bank names seen, without repetition. -/
def NamesInv (st : St α) (done : List Bank) : Prop :=
  st.wireNames = done.filterMap wireName ∧ st.wireNames.Nodup

theorem bankStep_namesInv {run : Nat} {b : Bank} {st st' : St α} {done : List Bank}
    (h : bankStep ops run b st = .ok st') (hinv : NamesInv st done) :
    NamesInv st' (done ++ [b]) := by
  obtain ⟨nm, hnm, hcase⟩ := bankStep_ok ops h
  have hw := wireName_of_kind hnm
  have keep : nm.kind ≠ .adc32 → st'.wireNames = st.wireNames → NamesInv st' (done ++ [b]) := by
    intro hk he
    unfold NamesInv
    rw [List.filterMap_append, he]
    simp only [List.filterMap, hw, if_neg hk, List.append_nil]
    exact hinv
  rcases hcase with ⟨hk, hb⟩ | ⟨hk, hb⟩ | ⟨hk, hb⟩ | ⟨h1, _, _, hb⟩
  · obtain ⟨p, _, hpk⟩ := wireBank_ok ops hb
    obtain ⟨ch, _, hnc, _, hwf⟩ := wirePacket_ok ops hpk
    have hnames : st'.wireNames = st.wireNames ++ [(nm.board, nm.channel)] := by
      rcases hwf with ⟨_, hst⟩ | ⟨_, hstore⟩
      · rw [hst]; rfl
      · obtain ⟨w, bl, g, d, _, _, _, _, _, _, hst⟩ := wireStore_ok ops hstore
        rw [hst]; split <;> rfl
    unfold NamesInv
    rw [List.filterMap_append, hnames]
    simp only [List.filterMap, hw, hk, if_true]
    refine ⟨by rw [hinv.1], ?_⟩
    refine List.nodup_append.2 ⟨hinv.2, by simp, ?_⟩
    intro a ha x hx
    simp only [List.mem_singleton] at hx
    subst hx
    intro e; subst e
    have : st.wireNames.contains (nm.board, nm.channel) = true := by
      simpa using ha
    rw [this] at hnc; cases hnc
  · obtain ⟨c, _, _, hst⟩ := padwingBank_ok hb
    exact keep (by rw [hk]; decide) (by rw [hst])
  · obtain ⟨p, _, _, hst⟩ := trgBank_ok hb
    exact keep (by rw [hk]; decide) (by rw [hst])
  · exact keep h1 (by rw [hb])

theorem bankLoop_namesInv {run : Nat} : ∀ (banks : List Bank) (st st' : St α) (done : List Bank),
    bankLoop ops run banks st = .ok st' → NamesInv st done → NamesInv st' (done ++ banks)
  | [], st, st', done, h, hinv => by
    simp only [bankLoop, ok_eq_ok] at h
    subst h; simpa using hinv
  | b :: bs, st, st', done, h, hinv => by
    obtain ⟨st1, h1, h2⟩ := bankLoop_cons_ok ops h
    have := bankLoop_namesInv bs st1 st' (done ++ [b]) h2 (bankStep_namesInv ops h1 hinv)
    simpa using this

theorem padStore_chanFine {run board chip n : Nat} {wf : List Int} {p : Pwb.PwbPacket} {k : Key}
    {pad pad' : Array (Option (List α))} (hb : board = keyRow k) (hc : chip = keyChip k)
    (hwf : Pwb.waveformAt p (.pad n) = .ok (some wf))
    (h : padStore ops run board chip n wf pad = .ok pad') : ChanFine run k p n := by
  subst hb hc
  obtain ⟨pos, bl, g, d, hpos, _, _, _, hbl, hg, hd, _⟩ := padStore_ok ops h
  exact ⟨wf, pos, bl, g, d, hwf, hpos, hbl, hg, hd⟩

/-- A successful build satisfies the acceptance predicate. -/
theorem accepts_of_ok {order : GroupOrder} {run : Nat} {banks : List Bank} {ev : Event α}
    (h : buildEventWith ops order run banks = .ok ev) : Accepts run banks := by
  unfold buildEventWith at h
  split at h
  · cases h
  · cases h
  · rename_i st hst
    unfold finish at h
    split at h
    · cases h
    · cases h
    · rename_i pad hpad
      split at h
      · cases h
      · rename_i ts hts
        refine ⟨?_, ?_, ?_, ?_⟩
        · intro b hb
          obtain ⟨s1, s2, hs⟩ := bankLoop_ok_mem ops hst b hb
          exact bankStep_fine ops hs
        · have := bankLoop_namesInv ops banks St.init st [] hst ⟨rfl, List.nodup_nil⟩
          rw [List.nil_append] at this
          rw [← this.1]; exact this.2
        · have := bankLoop_tsInv ops banks St.init st [] hst (Or.inl ⟨rfl, rfl⟩)
          rw [List.nil_append] at this
          rcases this with ⟨_, h5⟩ | ⟨t, h4, _⟩
          · rw [hts] at h5; cases h5
          · rw [h4]; rfl
        · intro g hg
          have hgs : st.groups = groupsOf banks := by
            rw [(bankLoop_groups ops banks St.init st hst).2]; rfl
          have hg' : g ∈ order.f st.groups := (order.perm st.groups).mem_iff.2 (hgs ▸ hg)
          obtain ⟨p, pad1, pad2, hp, hk1, hk2, hcl⟩ := groupLoop_ok_mem ops _ _ _ hpad g hg'
          refine ⟨p, hp, hk1, hk2, fun n hn => ?_⟩
          obtain ⟨wf, q1, q2, hwf, hs⟩ := channelLoop_ok_mem ops _ _ _ hcl n hn
          exact padStore_chanFine ops rfl rfl hwf hs

end AlphaG.Event
