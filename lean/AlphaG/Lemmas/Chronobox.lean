import AlphaG.Model.Chronobox
import AlphaG.Lemmas.Bytes
/-
Structural lemmas about the chronobox FIFO model (`entries`, `block?`, `parse`): unfolding
lemmas, behaviour under appending more bytes, progress. Core Lean only.
-/
namespace AlphaG.Chronobox

/-! ### Unfolding lemmas -/

theorem entries_short {l : List UInt8} (h : l.length < 4) : entries l = ([], l) := by
  match l, h with
  | [], _ => rfl
  | [_], _ => rfl
  | [_, _], _ => rfl
  | [_, _, _], _ => rfl
  | _ :: _ :: _ :: _ :: _, h => simp at h; omega

theorem entries_cons_some {b0 b1 b2 b3 : UInt8} {e : Entry} (rest : List UInt8)
    (h : (classify b0 b1 b2 b3).entry? = some e) :
    entries (b0 :: b1 :: b2 :: b3 :: rest) = (e :: (entries rest).1, (entries rest).2) := by
  rw [entries]
  cases hc : classify b0 b1 b2 b3 <;> rw [hc] at h <;> simp [Word.entry?] at h <;> simp [h]

theorem entries_cons_other {b0 b1 b2 b3 : UInt8} (rest : List UInt8)
    (h : classify b0 b1 b2 b3 = .other) :
    entries (b0 :: b1 :: b2 :: b3 :: rest) = ([], b0 :: b1 :: b2 :: b3 :: rest) := by
  rw [entries, h]

theorem parse_of_block {l r' : List UInt8} (h : block? (entries l).2 = some r') :
    parse l = ((entries l).1 ++ (parse r').1, (parse r').2) := by
  rw [parse.eq_1 l]; split
  · rename_i r'' h'; rw [h] at h'; injection h' with h'; subst h'; rfl
  · rename_i h'; rw [h] at h'; contradiction

theorem parse_of_noblock {l : List UInt8} (h : block? (entries l).2 = none) :
    parse l = entries l := by
  rw [parse.eq_1 l]; split
  · rename_i r'' h'; rw [h] at h'; contradiction
  · rfl

/-- The tag's top byte `0xFE` is in neither class. -/
theorem classify_tag : classify 0x3C 0x00 0x00 0xFE = .other := by decide

theorem block?_eq_some {l r : List UInt8} :
    block? l = some r ↔ ∃ p, p.length = blockPayload ∧ l = 0x3C :: 0x00 :: 0x00 :: 0xFE :: (p ++ r) := by
  constructor
  · intro h
    unfold block? at h
    split at h
    · rename_i rest
      split at h
      · injection h with h; subst h
        exact ⟨rest.take blockPayload, by simp; omega, by simp⟩
      · contradiction
    · contradiction
  · rintro ⟨p, hp, rfl⟩
    simp [block?, hp]

/-! ### Appending more input -/

theorem entries_append (a b : List UInt8) :
    entries (a ++ b)
      = ((entries a).1 ++ (entries ((entries a).2 ++ b)).1, (entries ((entries a).2 ++ b)).2) := by
  fun_induction entries a with
  | case1 b0 b1 b2 b3 rest ch e t h ih => simp [entries, h, ih]
  | case2 b0 b1 b2 b3 rest top c h ih => simp [entries, h, ih]
  | case3 b0 b1 b2 b3 rest h => simp [entries, h]
  | case4 l h => simp

theorem entries_of_block {l r : List UInt8} (h : block? l = some r) (b : List UInt8) :
    entries (l ++ b) = ([], l ++ b) ∧ block? (l ++ b) = some (r ++ b) := by
  obtain ⟨p, hp, rfl⟩ := block?_eq_some.1 h
  constructor
  · simp [entries, classify_tag]
  · exact block?_eq_some.2 ⟨p, hp, by simp⟩

/-- C07 (resumability, core step): parsing `a ++ b` is parsing `a`, then parsing the remainder
of `a` with `b` appended. -/
theorem parse_append (a b : List UInt8) :
    parse (a ++ b)
      = ((parse a).1 ++ (parse ((parse a).2 ++ b)).1, (parse ((parse a).2 ++ b)).2) := by
  fun_induction parse a with
  | case1 l r' h ih =>
    have ⟨h1, h2⟩ := entries_of_block h b
    have e := entries_append l b
    rw [h1] at e
    have hb : block? (entries (l ++ b)).2 = some (r' ++ b) := by rw [e]; exact h2
    rw [parse_of_block hb, e, ih]
    simp [List.append_assoc]
  | case2 l h =>
    have e := entries_append l b
    cases hb : block? (entries ((entries l).2 ++ b)).2 with
    | none =>
      have hb' : block? (entries (l ++ b)).2 = none := by rw [e]; exact hb
      rw [parse_of_noblock hb', parse_of_noblock hb, e]
    | some r'' =>
      have hb' : block? (entries (l ++ b)).2 = some r'' := by rw [e]; exact hb
      rw [parse_of_block hb', parse_of_block hb, e]
      simp [List.append_assoc]

/-! ### Progress -/

theorem entries_length (l : List UInt8) :
    4 * (entries l).1.length + (entries l).2.length = l.length := by
  fun_induction entries l <;> simp_all <;> omega

theorem block?_length {l r : List UInt8} (h : block? l = some r) : r.length + 244 = l.length := by
  obtain ⟨p, hp, rfl⟩ := block?_eq_some.1 h
  simp [hp, blockPayload, numInputChannels]; omega

theorem parse_length (l : List UInt8) :
    4 * (parse l).1.length + (parse l).2.length ≤ l.length := by
  fun_induction parse l with
  | case1 l r' h ih =>
    have := entries_length l
    have := block?_length h
    simp only [List.length_append]
    omega
  | case2 l h =>
    have := entries_length l
    omega

end AlphaG.Chronobox
