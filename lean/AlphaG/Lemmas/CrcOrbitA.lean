import AlphaG.Lemmas.CrcOrbitDef
/-
Segments 0..3 of the orbit of POLY under the zero-input map: each is one kernel
evaluation of 32800 register steps (`decide +kernel`; no `native_decide`). The junction states
are literals checked by the kernel (generated once with a script; a wrong literal fails).
-/
namespace AlphaG.Crc

theorem orbit_seg0 : walk 2197175160 32800 = some 2730798091 := by decide +kernel
theorem orbit_seg1 : walk 2730798091 32800 = some 3498798179 := by decide +kernel
theorem orbit_seg2 : walk 3498798179 32800 = some 978560023 := by decide +kernel
theorem orbit_seg3 : walk 978560023 32800 = some 1418059046 := by decide +kernel

end AlphaG.Crc
