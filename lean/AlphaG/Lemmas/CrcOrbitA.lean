import AlphaG.Lemmas.CrcOrbitDef
/-
Segments 0..3 of the orbit of 1 under the zero-input map: each is one kernel
evaluation of 32800 register steps (`decide +kernel`). The junction states
are literals checked by the kernel (generated once with a script; a wrong literal fails).
-/
namespace AlphaG.Crc

theorem orbit_seg0 : walk 1 32800 = some 1080372967 := by decide +kernel
theorem orbit_seg1 : walk 1080372967 32800 = some 2767892023 := by decide +kernel
theorem orbit_seg2 : walk 2767892023 32800 = some 1957120046 := by decide +kernel
theorem orbit_seg3 : walk 1957120046 32800 = some 2836118092 := by decide +kernel

end AlphaG.Crc
