import AlphaG.Model.Adc
import AlphaG.Lemmas.Bytes
import AlphaG.Lemmas.Adc
/-
Lemmas for the converse ADC round trip (`decode (encode p) = .ok p`, Props/C02Converse.lean):
reading bytes and big-endian fields out of an append, the sample block, and the explicit shape
of the long-form encoding (32 header bytes ++ samples ++ 4 footer bytes). Core Lean only.
-/
namespace AlphaG

theorem byteAt_append_left (H rest : List UInt8) (i : Nat) (h : i < H.length) :
    byteAt (H ++ rest) i = byteAt H i := by
  simp [byteAt, List.getD_eq_getElem?_getD, List.getElem?_append_left h]

theorem byteAt_append_right (H rest : List UInt8) (i : Nat) :
    byteAt (H ++ rest) (H.length + i) = byteAt rest i := by
  simp [byteAt, List.getD_eq_getElem?_getD, List.getElem?_append_right]

theorem beAt_append_left (H rest : List UInt8) (off k : Nat) (h : off + k ≤ H.length) :
    beAt (H ++ rest) off k = beAt H off k := by
  induction k generalizing off with
  | zero => rfl
  | succ k ih =>
    rw [beAt, beAt, byteAt_append_left H rest off (by omega), ih (off + 1) (by omega)]

theorem beAt_append_right (H rest : List UInt8) (off k : Nat) :
    beAt (H ++ rest) (H.length + off) k = beAt rest off k := by
  induction k generalizing off with
  | zero => rfl
  | succ k ih =>
    rw [beAt, beAt, byteAt_append_right, Nat.add_assoc, ih (off + 1)]

theorem toSigned_ofSigned32 (x : Int) (h : -2147483648 ≤ x ∧ x ≤ 2147483647) :
    toSigned 32 (ofSigned 32 x) = x := by
  unfold toSigned ofSigned
  have e : ((2 ^ 32 : Nat) : Int) = 4294967296 := by decide
  rw [e]
  split <;> simp at * <;> omega

theorem ofSigned32_lt (x : Int) : ofSigned 32 x < 4294967296 := by
  unfold ofSigned
  have : (0 : Int) ≤ x % ((2 ^ 32 : Nat) : Int) := Int.emod_nonneg _ (by simp)
  have : x % ((2 ^ 32 : Nat) : Int) < ((2 ^ 32 : Nat) : Int) := Int.emod_lt_of_pos _ (by simp)
  simp at *
  omega

namespace Adc

theorem encodeSamples_length (w : List Int) : (encodeSamples w).length = 2 * w.length := by
  induction w with
  | nil => rfl
  | cons s rest ih =>
    rw [encodeSamples, List.length_append, beBytes_length, ih, List.length_cons]
    omega

/-- Decoding the encoded sample block gives the samples back (each in `i16` range). -/
theorem i16s_encodeSamples (w : List Int) (h : ∀ x ∈ w, -32768 ≤ x ∧ x ≤ 32767) :
    i16s (encodeSamples w) = w := by
  induction w with
  | nil => rfl
  | cons s rest ih =>
    have hs := h s List.mem_cons_self
    have ho := ofSigned16_lt s
    have hso := toSigned_ofSigned16 s hs
    rw [encodeSamples, beBytes_two, List.cons_append, List.cons_append, List.nil_append,
      i16s_cons2, ih (fun x hx => h x (List.mem_cons_of_mem _ hx))]
    have e : (UInt8.ofNat (ofSigned 16 s / 256 % 256)).toNat * 256
        + (UInt8.ofNat (ofSigned 16 s % 256)).toNat = ofSigned 16 s := by
      simp only [UInt8.toNat_ofNat']
      omega
    rw [e, hso]

/-- The 32 header bytes of a long packet. -/
def longHeader (trig module chb req ts m0 m1 m2 m3 m4 m5 off build : Nat) : List UInt8 :=
  [1, 3, UInt8.ofNat (trig / 256 % 256), UInt8.ofNat (trig % 256), UInt8.ofNat module,
   UInt8.ofNat chb, UInt8.ofNat (req / 256 % 256), UInt8.ofNat (req % 256),
   UInt8.ofNat (ts % 4294967296 / 256 / 256 / 256 % 256),
   UInt8.ofNat (ts % 4294967296 / 256 / 256 % 256), UInt8.ofNat (ts % 4294967296 / 256 % 256),
   UInt8.ofNat (ts % 4294967296 % 256),
   0, 0, UInt8.ofNat m0, UInt8.ofNat m1, UInt8.ofNat m2, UInt8.ofNat m3, UInt8.ofNat m4,
   UInt8.ofNat m5,
   UInt8.ofNat (ts / 4294967296 / 256 / 256 / 256 % 256),
   UInt8.ofNat (ts / 4294967296 / 256 / 256 % 256), UInt8.ofNat (ts / 4294967296 / 256 % 256),
   UInt8.ofNat (ts / 4294967296 % 256),
   UInt8.ofNat (off / 256 / 256 / 256 % 256), UInt8.ofNat (off / 256 / 256 % 256),
   UInt8.ofNat (off / 256 % 256), UInt8.ofNat (off % 256),
   UInt8.ofNat (build / 256 / 256 / 256 % 256), UInt8.ofNat (build / 256 / 256 % 256),
   UInt8.ofNat (build / 256 % 256), UInt8.ofNat (build % 256)]

/-- The 4 footer bytes. -/
def longFooter (fw bl : Nat) : List UInt8 :=
  [UInt8.ofNat (fw / 256 % 256), UInt8.ofNat (fw % 256), UInt8.ofNat (bl / 256 % 256),
   UInt8.ofNat (bl % 256)]

theorem longHeader_length (trig module chb req ts m0 m1 m2 m3 m4 m5 off build : Nat) :
    (longHeader trig module chb req ts m0 m1 m2 m3 m4 m5 off build).length = 32 := rfl

theorem longFooter_length (fw bl : Nat) : (longFooter fw bl).length = 4 := rfl

/-- Shape of the long-form encoding. -/
theorem encode_long_eq (trig module : Nat) (chan : ChannelId) (req ts : Nat) (name : String)
    (m0 m1 m2 m3 m4 m5 : Nat) (t : Int) (n : Nat) (w : List Int) (bl : Int) (kl : Nat)
    (kb se : Bool) :
    encode { acceptedTrigger := trig, moduleId := module, channelId := chan,
             requestedSamples := req, eventTimestamp := ts,
             boardId := some (name, [m0, m1, m2, m3, m4, m5]), triggerOffset := some t,
             buildTimestamp := some n, waveform := w, suppressionBaseline := bl, keepLast := kl,
             keepBit := kb, suppressionEnabled := se }
      = longHeader trig module (channelByte chan) req ts m0 m1 m2 m3 m4 m5 (ofSigned 32 t) n
        ++ (encodeSamples w
          ++ longFooter (kl + (if kb then 4096 else 0) + (if se then 8192 else 0))
              (ofSigned 16 bl)) := by
  simp [encode, encodeFooter, footerWord, beBytes, leBytes, longHeader, longFooter]

/-- Reading the documented fields back out of the 32 header bytes. -/
theorem longHeader_reads (trig module chb req ts m0 m1 m2 m3 m4 m5 off build : Nat)
    (h1 : trig < 65536) (h2 : module < 256) (h3 : chb < 256) (h4 : req < 65536)
    (h5 : ts < 18446744073709551616) (g0 : m0 < 256) (g1 : m1 < 256) (g2 : m2 < 256)
    (g3 : m3 < 256) (g4 : m4 < 256) (g5 : m5 < 256) (h6 : off < 4294967296)
    (h7 : build < 4294967296) :
    byteAt (longHeader trig module chb req ts m0 m1 m2 m3 m4 m5 off build) 0 = 1 ∧
    byteAt (longHeader trig module chb req ts m0 m1 m2 m3 m4 m5 off build) 1 = 3 ∧
    beAt (longHeader trig module chb req ts m0 m1 m2 m3 m4 m5 off build) 2 2 = trig ∧
    byteAt (longHeader trig module chb req ts m0 m1 m2 m3 m4 m5 off build) 4 = module ∧
    byteAt (longHeader trig module chb req ts m0 m1 m2 m3 m4 m5 off build) 5 = chb ∧
    beAt (longHeader trig module chb req ts m0 m1 m2 m3 m4 m5 off build) 6 2 = req ∧
    beAt (longHeader trig module chb req ts m0 m1 m2 m3 m4 m5 off build) 8 4 = ts % 4294967296 ∧
    byteAt (longHeader trig module chb req ts m0 m1 m2 m3 m4 m5 off build) 12 = 0 ∧
    byteAt (longHeader trig module chb req ts m0 m1 m2 m3 m4 m5 off build) 13 = 0 ∧
    macAt (longHeader trig module chb req ts m0 m1 m2 m3 m4 m5 off build) = [m0, m1, m2, m3, m4, m5] ∧
    beAt (longHeader trig module chb req ts m0 m1 m2 m3 m4 m5 off build) 20 4 = ts / 4294967296 ∧
    beAt (longHeader trig module chb req ts m0 m1 m2 m3 m4 m5 off build) 24 4 = off ∧
    beAt (longHeader trig module chb req ts m0 m1 m2 m3 m4 m5 off build) 28 4 = build := by
  simp [longHeader, beAt, byteAt, macAt]
  omega
theorem longFooter_reads (fw bl : Nat) (h1 : fw < 65536) (h2 : bl < 65536) :
    beAt (longFooter fw bl) 0 2 = fw ∧ beAt (longFooter fw bl) 2 2 = bl := by
  simp [longFooter, beAt, byteAt]
  omega

/-! Reading a generic `H ++ (W ++ F)` with 32 header bytes and 4 footer bytes. -/

section shape
variable (H W F : List UInt8)

theorem shape_length (hH : H.length = 32) (hF : F.length = 4) :
    (H ++ (W ++ F)).length = 36 + W.length := by
  simp only [List.length_append, hH, hF]; omega

theorem shape_wave (hH : H.length = 32) (hF : F.length = 4) :
    wave (H ++ (W ++ F)) = i16s W := by
  unfold wave
  rw [shape_length H W F hH hF, List.drop_left' hH, show 36 + W.length - 36 = W.length by omega,
    List.take_left' rfl]

theorem shape_footer (hH : H.length = 32) (pos off k : Nat) (hpos : pos = 32 + W.length + off) :
    beAt (H ++ (W ++ F)) pos k = beAt F off k := by
  rw [← List.append_assoc]
  have e : pos = (H ++ W).length + off := by
    rw [List.length_append, hH]; exact hpos
  rw [e, beAt_append_right]

end shape

end Adc
end AlphaG
