import AlphaG.Lemmas.EventSuff
/-
Sufficiency of the acceptance predicate, second loop of `try_from_banks`: groups that are fine on
their own and have pairwise distinct (board, chip) keys pass the loop in any order. The
slot-occupancy test never fires because the pad map is injective (C08 `pad_bijection`).
-/
namespace AlphaG.Event
open AlphaG AlphaG.Generated AlphaG.Maps

variable {α : Type} (ops : Ops α)

/-! ### Keys and rows -/

theorem pwbBoardIdx_row : ∀ i, i < padwingBoards.length →
    pwbBoardIdx (padwingBoards.getD i ("?", [], 0)).1 = some i := by decide +kernel

theorem pwbBoardIdx_mem {b : Chunk.Board} (hb : b ∈ padwingBoards) :
    ∃ i, i < padwingBoards.length ∧ padwingBoards.getD i ("?", [], 0) = b
      ∧ pwbBoardIdx b.1 = some i := by
  obtain ⟨i, hi, e⟩ := List.mem_iff_getElem.1 hb
  refine ⟨i, hi, ?_, ?_⟩
  · rw [List.getD_eq_getElem?_getD, List.getElem?_eq_getElem hi]; exact e
  · have := pwbBoardIdx_row i hi
    rw [List.getD_eq_getElem?_getD, List.getElem?_eq_getElem hi] at this
    simp only [Option.getD_some] at this
    rw [← e]; exact this

/-- A key as it comes out of `Chunk::board_id()` / `after_id()`. -/
def KeyValid (k : Key) : Prop := ∃ b a, k = (some b, some a) ∧ b ∈ padwingBoards

theorem afterNum_inj (a a' : Chunk.AfterId) (h : afterNum a = afterNum a') : a = a' := by
  cases a <;> cases a' <;> simp [afterNum] at h <;> rfl

/-- Distinct valid keys are distinct (board row, chip) pairs. -/
theorem key_rc_inj {k k' : Key} (hk : KeyValid k) (hk' : KeyValid k')
    (h : (keyRow k, keyChip k) = (keyRow k', keyChip k')) : k = k' := by
  obtain ⟨b, a, rfl, hb⟩ := hk
  obtain ⟨b', a', rfl, hb'⟩ := hk'
  obtain ⟨i, _, e, hi⟩ := pwbBoardIdx_mem hb
  obtain ⟨i', _, e', hi'⟩ := pwbBoardIdx_mem hb'
  have h1 : keyRow (some b, some a) = i := by simp [keyRow, hi]
  have h2 : keyRow (some b', some a') = i' := by simp [keyRow, hi']
  have h3 := (Prod.mk.inj h).1
  have h4 := (Prod.mk.inj h).2
  rw [h1, h2] at h3
  subst h3
  have : b = b' := by rw [← e, ← e']
  subst this
  have : a = a' := afterNum_inj a a' (by simpa [keyChip] using h4)
  subst this
  rfl

theorem packetBoard_mem {b : List UInt8} {p : Pwb.PwbPacket} (h : Pwb.decodePwb b = .ok p) :
    packetBoard p ∈ padwingBoards := by
  obtain ⟨r, rfl⟩ := (Pwb.decodePwb_ok_iff_raw b p).1 h
  have hm := r.mac
  cases hx : Pwb.boardOfMac (Pwb.macOf b) with
  | none => exact absurd hx hm
  | some t =>
    have : packetBoard (Pwb.decoded b) = t := by
      simp only [packetBoard, Pwb.decoded, hx, Option.getD_some]
    rw [this]
    unfold Pwb.boardOfMac at hx
    exact List.mem_of_find?_eq_some hx

theorem nodup_map_of_inj_on {β γ : Type} (f : β → γ) : ∀ (l : List β),
    (∀ x ∈ l, ∀ y ∈ l, f x = f y → x = y) → l.Nodup → (l.map f).Nodup
  | [], _, _ => List.nodup_nil
  | a :: l, hinj, hn => by
    simp only [List.nodup_cons] at hn
    simp only [List.map_cons, List.nodup_cons]
    refine ⟨?_, nodup_map_of_inj_on f l
      (fun x hx y hy => hinj x (List.mem_cons_of_mem _ hx) y (List.mem_cons_of_mem _ hy)) hn.2⟩
    intro hm
    obtain ⟨y, hy, e⟩ := List.mem_map.1 hm
    have := hinj y (List.mem_cons_of_mem _ hy) a List.mem_cons_self e
    subst this
    exact hn.1 hy

/-! ### The invariant -/

/-- Occupied pad slots belong to recorded sources (board row, chip, pad channel). -/
def PadSlotInv (run : Nat) (pad : Array (Option (List α))) (src : List (Nat × Nat × Nat)) : Prop :=
  ∀ idx, slotTaken pad idx = true → ∃ t ∈ src, ∃ pos, padPosition run t.1 t.2.1 t.2.2 = .ok pos
    ∧ idx = pos.1 * nPadRows + pos.2
    ∧ t.1 < padwingBoards.length ∧ t.2.1 < 4 ∧ 1 ≤ t.2.2 ∧ t.2.2 ≤ 72

theorem padSlotInv_mono {run : Nat} {pad : Array (Option (List α))} {src src' : List (Nat × Nat × Nat)}
    (h : PadSlotInv run pad src) (hs : ∀ t ∈ src, t ∈ src') : PadSlotInv run pad src' := by
  intro idx hi
  obtain ⟨t, ht, rest⟩ := h idx hi
  exact ⟨t, hs t ht, rest⟩

/-- One fine channel from a new source is stored. -/
theorem padStore_suff {run board chip n : Nat} {wf : List Int} {pad : Array (Option (List α))}
    {src : List (Nat × Nat × Nat)} (hb : board < padwingBoards.length) (hc : chip < 4)
    (h1 : 1 ≤ n) (h2 : n ≤ 72) (hw : ∀ v ∈ wf, -32768 ≤ v ∧ v ≤ 32767)
    {pos : Nat × Nat} {bl : Int} {g d : Nat}
    (hpos : padPosition run board chip n = .ok pos) (hbl : padBaseline run pos.1 pos.2 = .ok bl)
    (hg : padGainBits run pos.1 pos.2 = .ok g) (hd : padDelay run = .ok d)
    (hnew : (board, chip, n) ∉ src) (hinv : PadSlotInv run pad src) :
    ∃ pad', padStore ops run board chip n wf pad = .ok pad'
      ∧ PadSlotInv run pad' (src ++ [(board, chip, n)]) := by
  obtain ⟨hp1, hp2⟩ := padPosition_ok_lt run board chip n pos hb hc h1 h2 hpos
  have hfree : slotTaken pad (pos.1 * nPadRows + pos.2) = false := by
    cases hs : slotTaken pad (pos.1 * nPadRows + pos.2) with
    | false => rfl
    | true =>
      obtain ⟨t, ht, pos', hpos', hidx, b1, b2, b3, b4⟩ := hinv _ hs
      obtain ⟨q1, q2⟩ := padPosition_ok_lt run t.1 t.2.1 t.2.2 pos' b1 b2 b3 b4 hpos'
      have hpe : pos' = pos := by
        have hr : nPadRows = 576 := rfl
        rw [hr] at hidx
        have : pos'.1 = pos.1 ∧ pos'.2 = pos.2 := by omega
        exact Prod.ext this.1 this.2
      subst hpe
      have hm : pwbMapExists run := by
        rcases pwbPosition_cases run with hm | ⟨v, hv⟩
        · exact hm
        · simp only [padPosition, padCompose, hv] at hpos; cases hpos
      have := (Maps.pad_bijection run hm).inj t.1 t.2.1 t.2.2 board chip n pos' b1 b2 b3 b4 hb hc h1 h2
        hpos' hpos
      have : t = (board, chip, n) := by
        obtain ⟨e1, e2, e3⟩ := this
        exact Prod.ext e1 (Prod.ext e2 e3)
      rw [this] at ht
      exact absurd ht hnew
  unfold padStore
  rw [hpos]
  simp only
  rw [need_eq (decide_eq_true (show pos.1 < nPadColumns from hp1)),
    need_eq (decide_eq_true (show pos.2 < nPadRows from hp2))]
  simp only [hfree, Bool.false_eq_true, if_false, hbl, hg, hd]
  rw [need_eq (subFitsI32_of_range bl _ (padBaseline_range run _ _ bl hbl)
    (fun v hv => hw v (List.mem_of_mem_drop hv)))]
  have old := padSlotInv_mono hinv (src' := src ++ [(board, chip, n)])
    (fun t ht => List.mem_append.2 (Or.inl ht))
  by_cases hemp : (calibrate ops bl (ops.ofBits g) d wf).isEmpty = true
  · rw [if_pos hemp]; exact ⟨_, rfl, old⟩
  · rw [if_neg hemp]
    refine ⟨_, rfl, ?_⟩
    intro idx hi
    rcases slotTaken_set _ _ _ _ hi with e | h'
    · exact ⟨(board, chip, n), by simp, pos, hpos, e, hb, hc, h1, h2⟩
    · exact old idx h'

/-- Sources of the pad channels of a channel list. -/
def chanSources (board chip : Nat) : List Pwb.ChannelId → List (Nat × Nat × Nat)
  | [] => []
  | .pad n :: cs => (board, chip, n) :: chanSources board chip cs
  | _ :: cs => chanSources board chip cs

theorem chanSources_rc (board chip : Nat) : ∀ (cs : List Pwb.ChannelId) t,
    t ∈ chanSources board chip cs → t.1 = board ∧ t.2.1 = chip ∧ Pwb.ChannelId.pad t.2.2 ∈ cs
  | [], t, h => by cases h
  | .pad n :: cs, t, h => by
    simp only [chanSources, List.mem_cons] at h
    rcases h with e | h
    · subst e; exact ⟨rfl, rfl, List.mem_cons_self⟩
    · obtain ⟨a, b, c⟩ := chanSources_rc board chip cs t h
      exact ⟨a, b, List.mem_cons_of_mem _ c⟩
  | .reset k :: cs, t, h => by
    obtain ⟨a, b, c⟩ := chanSources_rc board chip cs t h
    exact ⟨a, b, List.mem_cons_of_mem _ c⟩
  | .fpn k :: cs, t, h => by
    obtain ⟨a, b, c⟩ := chanSources_rc board chip cs t h
    exact ⟨a, b, List.mem_cons_of_mem _ c⟩

theorem channelLoop_suff {run board chip : Nat} {k : Key} {b : List UInt8} {p : Pwb.PwbPacket}
    (hp : Pwb.decodePwb b = .ok p) (hb : board = keyRow k) (hc : chip = keyChip k) :
    ∀ (cs : List Pwb.ChannelId) (pad : Array (Option (List α))) (src : List (Nat × Nat × Nat)),
    cs.Nodup → (∀ c ∈ cs, c ∈ p.channelsSent) →
    (∀ n, Pwb.ChannelId.pad n ∈ cs → ChanFine run k p n) →
    (∀ t ∈ src, (t.1, t.2.1) = (board, chip) → Pwb.ChannelId.pad t.2.2 ∉ cs) →
    PadSlotInv run pad src →
    ∃ pad', channelLoop ops run board chip p cs pad = .ok pad'
      ∧ PadSlotInv run pad' (src ++ chanSources board chip cs)
  | [], pad, src, _, _, _, _, hinv =>
    ⟨pad, rfl, padSlotInv_mono hinv (fun t ht => List.mem_append.2 (Or.inl ht))⟩
  | .reset j :: cs, pad, src, hn, hm, hf, hs, hinv => by
    unfold channelLoop
    exact channelLoop_suff hp hb hc cs pad src (List.nodup_cons.1 hn).2
      (fun c hc' => hm c (List.mem_cons_of_mem _ hc'))
      (fun n hn' => hf n (List.mem_cons_of_mem _ hn'))
      (fun t ht e hx => hs t ht e (List.mem_cons_of_mem _ hx)) hinv
  | .fpn j :: cs, pad, src, hn, hm, hf, hs, hinv => by
    unfold channelLoop
    exact channelLoop_suff hp hb hc cs pad src (List.nodup_cons.1 hn).2
      (fun c hc' => hm c (List.mem_cons_of_mem _ hc'))
      (fun n hn' => hf n (List.mem_cons_of_mem _ hn'))
      (fun t ht e hx => hs t ht e (List.mem_cons_of_mem _ hx)) hinv
  | .pad n :: cs, pad, src, hn, hm, hf, hs, hinv => by
    obtain ⟨_, f2, f3⟩ := pwb_facts b p hp
    have hmem := hm (.pad n) List.mem_cons_self
    obtain ⟨n1, n2⟩ := f2 n hmem
    obtain ⟨wf', hwf', hr⟩ := f3 _ hmem
    obtain ⟨wf, pos, bl, g, d, hwf, hpos, hbl, hg, hd⟩ := hf n List.mem_cons_self
    have : wf' = wf := by rw [hwf] at hwf'; cases hwf'; rfl
    subst this
    have hnew : (board, chip, n) ∉ src := by
      intro hx
      exact hs _ hx rfl List.mem_cons_self
    subst hb hc
    obtain ⟨pad1, h1, i1⟩ := padStore_suff ops (wf := wf') (keyRow_lt k) (keyChip_lt k) n1 n2 hr hpos hbl
      hg hd hnew hinv
    obtain ⟨pad', h2, i2⟩ := channelLoop_suff hp rfl rfl cs pad1 (src ++ [(keyRow k, keyChip k, n)])
      (List.nodup_cons.1 hn).2 (fun c hc' => hm c (List.mem_cons_of_mem _ hc'))
      (fun m hm' => hf m (List.mem_cons_of_mem _ hm'))
      (by
        intro t ht e hx
        rcases List.mem_append.1 ht with h | h
        · exact hs t h e (List.mem_cons_of_mem _ hx)
        · simp only [List.mem_singleton] at h
          subst h
          exact (List.nodup_cons.1 hn).1 hx)
      i1
    refine ⟨pad', ?_, ?_⟩
    · unfold channelLoop
      rw [hwf]
      simp only [h1]
      exact h2
    · simpa [chanSources, List.append_assoc] using i2

/-- One fine group whose (board, chip) is new passes one iteration. -/
theorem groupStep_suff {run : Nat} {g : Group} {pad : Array (Option (List α))}
    {src : List (Nat × Nat × Nat)} (hf : GroupFine run g)
    (hnew : ∀ t ∈ src, (t.1, t.2.1) ≠ (keyRow g.1, keyChip g.1)) (hinv : PadSlotInv run pad src) :
    ∃ pad' src', groupStep ops run g pad = .ok pad' ∧ PadSlotInv run pad' (src ++ src')
      ∧ ∀ t ∈ src', (t.1, t.2.1) = (keyRow g.1, keyChip g.1) := by
  obtain ⟨p, hp, hk1, hk2, hch⟩ := hf
  have hdec := Pwb.reassemble_ok_eq_direct g.2 p hp
  have hnd := (Pwb.pwb_channels_sent _ p hdec).2.2.1
  obtain ⟨pad', h1, i1⟩ := channelLoop_suff ops hdec rfl rfl p.channelsSent pad src hnd
    (fun _ hc => hc) hch (fun t ht e => absurd e (hnew t ht)) hinv
  refine ⟨pad', _, ?_, i1, ?_⟩
  · unfold groupStep
    rw [hp]
    simp only [hk1, hk2, ne_eq, not_true_eq_false, if_false]
    exact h1
  · intro t ht
    obtain ⟨a, b, _⟩ := chanSources_rc _ _ _ t ht
    exact Prod.ext a b

theorem groupLoop_suff {run : Nat} : ∀ (gs : List Group) (pad : Array (Option (List α)))
    (src : List (Nat × Nat × Nat)),
    (∀ g ∈ gs, GroupFine run g) →
    (gs.map (fun g => (keyRow g.1, keyChip g.1))).Nodup →
    (∀ t ∈ src, (t.1, t.2.1) ∉ gs.map (fun g => (keyRow g.1, keyChip g.1))) →
    PadSlotInv run pad src → ∃ pad', groupLoop ops run gs pad = .ok pad'
  | [], pad, _, _, _, _, _ => ⟨pad, rfl⟩
  | g :: gs, pad, src, hf, hnd, hnew, hinv => by
    simp only [List.map_cons, List.nodup_cons] at hnd
    obtain ⟨pad1, src1, h1, i1, hs1⟩ := groupStep_suff ops (hf g List.mem_cons_self)
      (fun t ht e => hnew t ht (by rw [e]; exact List.mem_cons_self)) hinv
    obtain ⟨pad', h2⟩ := groupLoop_suff gs pad1 (src ++ src1)
      (fun g' hg' => hf g' (List.mem_cons_of_mem _ hg')) hnd.2
      (by
        intro t ht hm
        rcases List.mem_append.1 ht with h | h
        · exact hnew t h (List.mem_cons_of_mem _ hm)
        · rw [hs1 t h] at hm; exact hnd.1 hm)
      i1
    exact ⟨pad', by unfold groupLoop; rw [h1]; exact h2⟩

theorem padSlotInv_init (run : Nat) : PadSlotInv run (St.init : St α).pad [] := by
  intro idx hi
  exfalso
  simp only [St.init, slotTaken, Array.getElem?_replicate] at hi
  split at hi <;> simp at hi

end AlphaG.Event
