import AlphaG.Model.Maps
/-
`match run_number` arms (C08): which arm a run number selects depends only on which of the
arms' cut points (`N` of `N..`, 2^32-1 of `u32::MAX`) lie at or below it. So a statement about
*every* u32 run number reduces to a check at the finitely many cut points, which the kernel
decides on the generated arms; no threshold is written down by hand. Core Lean only.
-/
namespace AlphaG.Maps
open AlphaG.Generated

/-- Cut points of the arms. -/
def cutsOf : Arms → List Nat
  | [] => []
  | (.max, _) :: r => 4294967295 :: cutsOf r
  | (.ge n, _) :: r => n :: cutsOf r
  | (.wild, _) :: r => cutsOf r

/-- Largest cut point ≤ `r` (0 if none). -/
def rep : List Nat → Nat → Nat
  | [], _ => 0
  | c :: cs, r => if c ≤ r then max c (rep cs r) else rep cs r

theorem rep_le (cs : List Nat) (r : Nat) : rep cs r ≤ r := by
  induction cs with
  | nil => simp [rep]
  | cons c cs ih =>
    simp only [rep]
    split
    · rw [Nat.max_def]; split <;> omega
    · exact ih

theorem le_rep (cs : List Nat) (r c : Nat) (hc : c ∈ cs) (hcr : c ≤ r) : c ≤ rep cs r := by
  induction cs with
  | nil => cases hc
  | cons d cs ih =>
    simp only [rep]
    rcases List.mem_cons.1 hc with rfl | hc
    · simp only [hcr, if_true]; exact Nat.le_max_left _ _
    · split
      · exact Nat.le_trans (ih hc) (Nat.le_max_right _ _)
      · exact ih hc

theorem rep_mem (cs : List Nat) (r : Nat) : rep cs r ∈ 0 :: cs := by
  induction cs with
  | nil => simp [rep]
  | cons c cs ih =>
    simp only [rep]
    split
    · rw [Nat.max_def]
      split
      · rcases List.mem_cons.1 ih with h | h
        · rw [h]; exact List.mem_cons_self
        · exact List.mem_cons_of_mem _ (List.mem_cons_of_mem _ h)
      · exact List.mem_cons_of_mem _ List.mem_cons_self
    · rcases List.mem_cons.1 ih with h | h
      · rw [h]; exact List.mem_cons_self
      · exact List.mem_cons_of_mem _ (List.mem_cons_of_mem _ h)

/-- Two run numbers on the same side of every cut point. -/
def SameSide (cuts : List Nat) (r r' : Nat) : Prop := ∀ c, c ∈ cuts → (c ≤ r ↔ c ≤ r')

theorem sameSide_rep (cs : List Nat) (r : Nat) : SameSide cs r (rep cs r) := by
  intro c hc
  constructor
  · exact le_rep cs r c hc
  · intro h; exact Nat.le_trans h (rep_le cs r)

theorem dispatch_sameSide (arms : Arms) (r r' : Nat) (hr : r < 2 ^ 32) (hr' : r' < 2 ^ 32)
    (h : SameSide (cutsOf arms) r r') :
    dispatch arms r = dispatch arms r' ∧ dispatchIdx arms r = dispatchIdx arms r' := by
  induction arms with
  | nil => simp [dispatch, dispatchIdx]
  | cons a arms ih =>
    obtain ⟨p, x⟩ := a
    cases p with
    | max =>
      have hc := h 4294967295 (by simp [cutsOf])
      have ih' := ih (fun c hc => h c (by simp [cutsOf, hc]))
      have e : patMatches .max r = patMatches .max r' := by
        simp only [patMatches]
        rw [Bool.eq_iff_iff]
        simp only [beq_iff_eq]
        omega
      simp [dispatch, dispatchIdx, e, ih'.1, ih'.2]
    | ge n =>
      have hc := h n (by simp [cutsOf])
      have ih' := ih (fun c hc => h c (by simp [cutsOf, hc]))
      have e : patMatches (.ge n) r = patMatches (.ge n) r' := by
        simp only [patMatches, hc]
      simp [dispatch, dispatchIdx, e, ih'.1, ih'.2]
    | wild =>
      simp [dispatch, dispatchIdx, patMatches]

/-- Every u32 run number selects the same arm as the largest cut point below it. -/
theorem dispatch_rep (arms : Arms) (r : Nat) (hr : r < 2 ^ 32) :
    dispatch arms r = dispatch arms (rep (cutsOf arms) r) :=
  (dispatch_sameSide arms r _ hr (Nat.lt_of_le_of_lt (rep_le _ _) hr) (sameSide_rep _ _)).1

theorem dispatchIdx_rep (arms : Arms) (r : Nat) (hr : r < 2 ^ 32) :
    dispatchIdx arms r = dispatchIdx arms (rep (cutsOf arms) r) :=
  (dispatch_sameSide arms r _ hr (Nat.lt_of_le_of_lt (rep_le _ _) hr) (sameSide_rep _ _)).2

/-- The selected right-hand side is one of the arms'. -/
theorem dispatch_mem (arms : Arms) (r : Nat) (x : ArmRhs) (h : dispatch arms r = some x) :
    x ∈ arms.map (fun a => a.2) := by
  induction arms with
  | nil => simp [dispatch] at h
  | cons a arms ih =>
    obtain ⟨p, y⟩ := a
    simp only [dispatch] at h
    split at h
    · simp only [Option.some.injEq] at h; subst h; simp
    · simp only [List.map_cons, List.mem_cons]; exact Or.inr (ih h)

def ArmRhs.isTable : ArmRhs → Bool
  | .table _ => true
  | _ => false

def ArmRhs.isErr : ArmRhs → Bool
  | .err _ => true
  | _ => false

def isTableAt (arms : Arms) (r : Nat) : Bool :=
  match dispatch arms r with
  | some x => ArmRhs.isTable x
  | none => false

def isErrAt (arms : Arms) (r : Nat) : Bool :=
  match dispatch arms r with
  | some x => ArmRhs.isErr x
  | none => false

/-- Does the run select a table or a literal value (= "a map exists")? -/
def hasMapAt (arms : Arms) (r : Nat) : Bool :=
  match dispatch arms r with
  | some (.table _) => true
  | some (.value _) => true
  | _ => false

/-- The first run number with a map: the smallest cut point (or 0) at which the arms select a
map; 2^32 if there is none. Computed from the generated arms. -/
def firstMapRun (arms : Arms) : Nat :=
  ((0 :: cutsOf arms).filter (hasMapAt arms)).foldl min (2 ^ 32)

/-- Checked by the kernel on the generated arms: below `lo` every cut point selects an error,
from `lo` on every cut point selects a map, and `lo` is itself a cut point (or 0). -/
def armsSplitAt (arms : Arms) (lo : Nat) : Bool :=
  (0 :: cutsOf arms).all (fun c => if c < lo then isErrAt arms c else hasMapAt arms c)
    && (0 :: cutsOf arms).contains lo

theorem before_of_split (arms : Arms) (lo : Nat) (h : armsSplitAt arms lo = true) (r : Nat)
    (hr : r < lo) (hr32 : r < 2 ^ 32) : isErrAt arms r = true := by
  simp only [armsSplitAt, Bool.and_eq_true, List.all_eq_true] at h
  have hm := rep_mem (cutsOf arms) r
  have hle := rep_le (cutsOf arms) r
  have := h.1 _ hm
  rw [if_pos (by omega)] at this
  unfold isErrAt at this ⊢
  rw [dispatch_rep arms r hr32]
  exact this

theorem from_of_split (arms : Arms) (lo : Nat) (h : armsSplitAt arms lo = true) (r : Nat)
    (hr : lo ≤ r) (hr32 : r < 2 ^ 32) : hasMapAt arms r = true := by
  simp only [armsSplitAt, Bool.and_eq_true, List.all_eq_true] at h
  have hm := rep_mem (cutsOf arms) r
  have hlo : lo ≤ rep (cutsOf arms) r := by
    have := h.2
    simp only [List.contains_iff_mem] at this
    rcases List.mem_cons.1 this with h0 | h0
    · omega
    · exact le_rep _ _ _ h0 hr
  have := h.1 _ hm
  rw [if_neg (by omega)] at this
  unfold hasMapAt at this ⊢
  rw [dispatch_rep arms r hr32]
  exact this

/-- Every arm is selected by some run number (no arm is shadowed by an earlier one): checked at
the cut points. -/
def noShadowedArm (arms : Arms) : Bool :=
  (List.range arms.length).all fun i =>
    (0 :: cutsOf arms).any fun c => dispatchIdx arms c == some i

/-- All `.table i` right-hand sides point into a table list of length `n`. -/
def tablesBelow (arms : Arms) (n : Nat) : Bool :=
  arms.all fun a => match a.2 with
    | .table i => decide (i < n)
    | _ => true

theorem table_lt_of_dispatch (arms : Arms) (n r i : Nat) (h : tablesBelow arms n = true)
    (hd : dispatch arms r = some (.table i)) : i < n := by
  have hm := dispatch_mem arms r _ hd
  simp only [List.mem_map] at hm
  obtain ⟨a, ha, e⟩ := hm
  simp only [tablesBelow, List.all_eq_true] at h
  have := h a ha
  rw [e] at this
  simpa using this

end AlphaG.Maps
