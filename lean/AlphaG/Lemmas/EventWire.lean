import AlphaG.Lemmas.EventInv
/-
C10, anode wires: the specification `expectedWire` (written from the property text) and the
invariant of the first loop of `try_from_banks`.
-/
namespace AlphaG.Event
open AlphaG AlphaG.Generated AlphaG.Maps

variable {α : Type} (ops : Ops α)

/-! ### Specification -/

/-- Value of a lookup, where it succeeded. -/
def okD {ε β : Type} (d : β) : Outcome ε β → β
  | .ok v => v
  | _ => d

/-- The raw waveform a bank delivers to wire `w`: the bank is named as an anode-wire bank, its
payload is a well-formed ADC packet of an anode-wire channel, and the run's map sends the
packet's (board, channel) to `w` (a suppressed packet carries no board id: the name's). -/
def wireHit (run w : Nat) (b : Bank) : Option (List Int) :=
  match BankName.parseBankName b.1 with
  | .ok nm =>
    match nm.kind with
    | .adc32 =>
      match Adc.decodeAdcPacket b.2 with
      | .ok p =>
        match p.channelId with
        | .a32 ch =>
          if Maps.wirePosition run (a16Row (boardOf nm p)) ch = .ok w then some p.waveform else none
        | .a16 _ => none
      | _ => none
    | _ => none
  | _ => none

/-- Something is left of the waveform after the run's leading delay samples are removed. -/
def afterWireDelay (run : Nat) (wf : List Int) : Bool :=
  !(wf.drop (okD 0 (wireDelay run))).isEmpty

/-- The waveforms for wire `w` that are non-empty after the delay, in bank order. -/
def wireHits (run w : Nat) (banks : List Bank) : List (List Int) :=
  (banks.filterMap (wireHit run w)).filter (afterWireDelay run)

/-- C10: what wire slot `w` must hold — the unique waveform for `w`, delay samples removed,
`(v − baseline w) · gain w`; `none` when there is none. -/
def expectedWire (run : Nat) (banks : List Bank) (w : Nat) : Option (List α) :=
  match wireHits run w banks with
  | [wf] => some (calibrate ops (okD 0 (wireBaseline run w)) (ops.ofBits (okD 0 (wireGainBits run w)))
              (okD 0 (wireDelay run)) wf)
  | _ => none

/-! ### Invariant -/

/-- After the banks `done`: every wire slot holds what the specification says, and no wire has
two waveforms. -/
def WireInv (run : Nat) (st : St α) (done : List Bank) : Prop :=
  st.wire.size = 256 ∧ ∀ w, w < 256 →
    st.wire[w]? = some (expectedWire ops run done w) ∧ (wireHits run w done).length ≤ 1

/-- Contribution of one bank to `wireHits`. -/
def hitList (run w : Nat) (b : Bank) : List (List Int) :=
  match wireHit run w b with
  | some wf => if afterWireDelay run wf then [wf] else []
  | none => []

theorem wireHits_snoc (run w : Nat) (done : List Bank) (b : Bank) :
    wireHits run w (done ++ [b]) = wireHits run w done ++ hitList run w b := by
  unfold wireHits hitList
  rw [List.filterMap_append, List.filter_append]
  congr 1
  cases h : wireHit run w b with
  | none => simp [List.filterMap, h]
  | some wf =>
    by_cases hd : afterWireDelay run wf = true
    · simp [List.filterMap, h, List.filter, hd]
    · simp [List.filterMap, h, List.filter, hd]

theorem hitList_of_hit_none {run w : Nat} {b : Bank} (h : wireHit run w b = none) :
    hitList run w b = [] := by
  unfold hitList; rw [h]

theorem hitList_of_hit_some {run w : Nat} {b : Bank} {wf : List Int} (h : wireHit run w b = some wf) :
    hitList run w b = if afterWireDelay run wf then [wf] else [] := by
  unfold hitList; rw [h]

theorem wireInv_of_noHit (run : Nat) (st st' : St α) (done : List Bank) (b : Bank)
    (hw : st'.wire = st.wire) (hn : ∀ w, hitList run w b = [])
    (h : WireInv ops run st done) : WireInv ops run st' (done ++ [b]) := by
  obtain ⟨hs, hi⟩ := h
  refine ⟨by rw [hw]; exact hs, fun w hlt => ?_⟩
  have e : wireHits run w (done ++ [b]) = wireHits run w done := by
    rw [wireHits_snoc, hn w, List.append_nil]
  unfold expectedWire
  rw [e, hw]
  exact hi w hlt

theorem calibrate_isEmpty (bl : Int) (g : α) (d : Nat) (wf : List Int) :
    (calibrate ops bl g d wf).isEmpty = (wf.drop d).isEmpty := by
  unfold calibrate
  cases wf.drop d <;> rfl

theorem wireHit_of_parse_ne {run w : Nat} {b : Bank} {nm : BankName.Name}
    (hp : BankName.parseBankName b.1 = .ok nm) (hk : nm.kind ≠ .adc32) : wireHit run w b = none := by
  unfold wireHit
  rw [hp]
  cases hkk : nm.kind <;> simp_all

/-- One successful iteration of the first loop preserves the wire invariant. -/
theorem bankStep_wireInv {run : Nat} {b : Bank} {st st' : St α} {done : List Bank}
    (h : bankStep ops run b st = .ok st') (hinv : WireInv ops run st done) :
    WireInv ops run st' (done ++ [b]) := by
  obtain ⟨nm, hnm, hcase⟩ := bankStep_ok ops h
  rcases hcase with ⟨hk, hb⟩ | ⟨hk, hb⟩ | ⟨hk, hb⟩ | ⟨h1, _, _, hb⟩
  · -- anode-wire bank
    obtain ⟨p, hp, hpk⟩ := wireBank_ok ops hb
    obtain ⟨ch, hch, _, _, hwf⟩ := wirePacket_ok ops hpk
    have hit : ∀ w, wireHit run w b
        = if wirePosition run (a16Row (boardOf nm p)) ch = .ok w then some p.waveform else none := by
      intro w
      unfold wireHit
      rw [hnm]; simp only [hk, hp, hch]
    rcases hwf with ⟨he, hst⟩ | ⟨hne, hstore⟩
    · -- empty waveform: nothing stored, nothing expected
      refine wireInv_of_noHit ops run st st' done b (by rw [hst]; rfl) (fun w => ?_) hinv
      by_cases hpw : wirePosition run (a16Row (boardOf nm p)) ch = .ok w
      · rw [hitList_of_hit_some (by rw [hit w, if_pos hpw]), he]
        simp [afterWireDelay]
      · exact hitList_of_hit_none (by rw [hit w, if_neg hpw])
    · obtain ⟨w0, bl, g, d, hpos, hlt, hfree, hbl, hg, hd, hst⟩ := wireStore_ok ops hstore
      have hdel : ∀ wf, afterWireDelay run wf = !(wf.drop d).isEmpty := by
        intro wf; unfold afterWireDelay; rw [hd]; rfl
      by_cases hemp : (calibrate ops bl (ops.ofBits g) d p.waveform).isEmpty = true
      · -- nothing left after the delay: nothing stored, nothing expected
        rw [if_pos hemp] at hst
        refine wireInv_of_noHit ops run st st' done b (by rw [hst]; rfl) (fun w => ?_) hinv
        by_cases hpw : wirePosition run (a16Row (boardOf nm p)) ch = .ok w
        · rw [hitList_of_hit_some (by rw [hit w, if_pos hpw])]
          rw [calibrate_isEmpty] at hemp
          simp [hdel, hemp]
        · exact hitList_of_hit_none (by rw [hit w, if_neg hpw])
      · rw [if_neg hemp] at hst
        obtain ⟨hs, hi⟩ := hinv
        have hsz : st'.wire.size = 256 := by
          rw [hst]; simp only [St.named, Array.size_setIfInBounds]; exact hs
        refine ⟨hsz, fun w hw => ?_⟩
        by_cases hww : w = w0
        · subst hww
          -- the slot was free: no earlier waveform for this wire
          obtain ⟨hslot, hlen⟩ := hi w hw
          have hnone : expectedWire ops run done w = none := by
            have : slotTaken st.wire w = false := hfree
            unfold slotTaken at this
            rw [hslot] at this
            simpa using this
          have hnil : wireHits run w done = [] := by
            unfold expectedWire at hnone
            cases hx : wireHits run w done with
            | nil => rfl
            | cons a t =>
              rw [hx] at hnone hlen
              cases t with
              | nil => simp at hnone
              | cons _ _ => simp at hlen
          have hsnoc : wireHits run w (done ++ [b]) = [p.waveform] := by
            rw [wireHits_snoc, hnil, hitList_of_hit_some (by rw [hit w, if_pos hpos])]
            simp only [List.nil_append]
            rw [calibrate_isEmpty] at hemp
            simp [hdel, hemp]
          refine ⟨?_, by rw [hsnoc]; simp⟩
          unfold expectedWire
          rw [hsnoc, hst]
          simp only [St.named, Array.getElem?_setIfInBounds, if_true, hs, hw, hbl, hg, hd, okD]
        · have hsnoc : wireHits run w (done ++ [b]) = wireHits run w done := by
            have : wirePosition run (a16Row (boardOf nm p)) ch ≠ .ok w := by
              rw [hpos]; intro hh; cases hh; exact hww rfl
            rw [wireHits_snoc, hitList_of_hit_none (by rw [hit w, if_neg this]), List.append_nil]
          obtain ⟨hslot, hlen⟩ := hi w hw
          refine ⟨?_, by rw [hsnoc]; exact hlen⟩
          unfold expectedWire
          rw [hsnoc, hst]
          simp only [St.named, Array.getElem?_setIfInBounds, if_neg (Ne.symm hww)]
          exact hslot
  · obtain ⟨c, _, _, hst⟩ := padwingBank_ok hb
    refine wireInv_of_noHit ops run st st' done b (by rw [hst]) (fun w => ?_) hinv
    exact hitList_of_hit_none (wireHit_of_parse_ne hnm (by rw [hk]; decide))
  · obtain ⟨p, _, _, hst⟩ := trgBank_ok hb
    refine wireInv_of_noHit ops run st st' done b (by rw [hst]) (fun w => ?_) hinv
    exact hitList_of_hit_none (wireHit_of_parse_ne hnm (by rw [hk]; decide))
  · refine wireInv_of_noHit ops run st st' done b (by rw [hb]) (fun w => ?_) hinv
    exact hitList_of_hit_none (wireHit_of_parse_ne hnm h1)

theorem bankLoop_wireInv {run : Nat} : ∀ (banks : List Bank) (st st' : St α) (done : List Bank),
    bankLoop ops run banks st = .ok st' → WireInv ops run st done →
    WireInv ops run st' (done ++ banks)
  | [], st, st', done, h, hinv => by
    simp only [bankLoop, ok_eq_ok] at h
    subst h; simpa using hinv
  | b :: bs, st, st', done, h, hinv => by
    obtain ⟨st1, h1, h2⟩ := bankLoop_cons_ok ops h
    have := bankLoop_wireInv bs st1 st' (done ++ [b]) h2 (bankStep_wireInv ops h1 hinv)
    simpa using this

theorem wireInv_init (run : Nat) : WireInv ops run (St.init : St α) [] := by
  refine ⟨by simp [St.init, nWires], fun w hw => ?_⟩
  simp [St.init, nWires, hw, expectedWire, wireHits]

end AlphaG.Event
