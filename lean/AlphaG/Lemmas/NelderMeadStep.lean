import AlphaG.Lemmas.NelderMead
/-
The invariants of one Nelder–Mead iteration (Model/NelderMead.lean `nextIter`, `step`), for a simplex
of `n + 1` vertices of dimension `n ≥ 1` and a cost function that, on vectors of dimension `n`, either
returns a non-NaN value or panics at its own site `cs`. Core Lean only.
-/
namespace AlphaG.NelderMead
open AlphaG

variable {α ε : Type} {o : NOps α}

/-- `n + 1` vertices of dimension `n`. -/
def Shape (n : Nat) (s : List (Vertex α)) : Prop := s.length = n + 1 ∧ ∀ v ∈ s, v.1.length = n

/-- On vectors of dimension `n` the cost function returns a `Num` value or panics at site `cs`
(never an `Err`, never another panic). -/
def CostSpec (cost : List α → Outcome ε α) (Num : α → Prop) (n : Nat) (cs : String) : Prop :=
  ∀ x, x.length = n → (∃ c, cost x = .ok c ∧ Num c) ∨ cost x = .panic cs

/-- Every vertex carries the value the cost function returns for it, and that value is `Num`. -/
def Evaluated (cost : List α → Outcome ε α) (Num : α → Prop) (s : List (Vertex α)) : Prop :=
  ∀ v ∈ s, cost v.1 = .ok v.2 ∧ Num v.2

theorem Shape.destruct {n : Nat} (hn : 0 < n) {s : List (Vertex α)} (hs : Shape n s) :
    ∃ b mid w, s = b :: (mid ++ [w]) := by
  obtain ⟨hl, _⟩ := hs
  match s, hl with
  | b :: t, hl =>
    have ht : t ≠ [] := by
      intro h; rw [h] at hl; simp at hl; omega
    exact ⟨b, t.dropLast, t.getLast ht, by rw [List.dropLast_concat_getLast ht]⟩

theorem replaceLast_eq (b : Vertex α) (mid : List (Vertex α)) (w v : Vertex α) :
    replaceLast (b :: (mid ++ [w])) v = b :: (mid ++ [v]) := by
  unfold replaceLast
  rw [← List.cons_append, List.dropLast_concat]
  rfl

theorem shape_replace {n : Nat} (b : Vertex α) (mid : List (Vertex α)) (w v : Vertex α)
    (hs : Shape n (b :: (mid ++ [w]))) (hv : v.1.length = n) : Shape n (b :: (mid ++ [v])) := by
  refine ⟨by simpa using hs.1, ?_⟩
  intro u hu
  simp only [List.mem_cons, List.mem_append, List.not_mem_nil, or_false] at hu
  rcases hu with h | h | h
  · exact hs.2 u (by simp [h])
  · exact hs.2 u (by simp [h])
  · rw [h]; exact hv

theorem evaluated_replace {cost : List α → Outcome ε α} {Num : α → Prop} (b : Vertex α)
    (mid : List (Vertex α)) (w v : Vertex α)
    (hs : Evaluated cost Num (b :: (mid ++ [w]))) (hv : cost v.1 = .ok v.2 ∧ Num v.2) :
    Evaluated cost Num (b :: (mid ++ [v])) := by
  intro u hu
  simp only [List.mem_cons, List.mem_append, List.not_mem_nil, or_false] at hu
  rcases hu with h | h | h
  · exact hs u (by simp [h])
  · exact hs u (by simp [h])
  · rw [h]; exact hv

theorem centroid_ok {n : Nat} (hn : 0 < n) (s : List (Vertex α)) (hs : Shape n s) :
    ∃ x0, (centroid o s : Outcome ε (List α)) = .ok x0 ∧ x0.length = n := by
  obtain ⟨hl, hd⟩ := hs
  match s, hl, hd with
  | p0 :: rest, hl, hd =>
    simp only [centroid]
    have hps : ∀ p ∈ rest.dropLast.map Prod.fst, p.length = n := by
      intro p hp
      obtain ⟨v, hv, rfl⟩ := List.mem_map.1 hp
      exact hd v (List.mem_cons_of_mem _ (List.dropLast_subset rest hv))
    obtain ⟨a, ha, hal⟩ := foldAdd_ok (ε := ε) o hn (rest.dropLast.map Prod.fst) p0.1 (hd p0 (by simp)) hps
    rw [ha]
    exact ⟨_, rfl, by rw [vscale_length]; exact hal⟩

/-- `shrink` on a simplex of the right shape: either every re-evaluation succeeds, the first vertex is
kept, and the result has the same shape, or a re-evaluation panics at the cost function's site. -/
theorem shrinkTail_cases {cost : List α → Outcome ε α} {Num : α → Prop} {n : Nat} {cs : String}
    (hn : 0 < n) (hc : CostSpec cost Num n cs) (x0 : List α) (h0 : x0.length = n)
    (vs : List (Vertex α)) (hvs : ∀ v ∈ vs, v.1.length = n) :
    (∃ r, shrinkTail o cost x0 vs = .ok r ∧ r.length = vs.length ∧ (∀ v ∈ r, v.1.length = n) ∧
        Evaluated cost Num r) ∨
    (shrinkTail o cost x0 vs = .panic cs ∧ ∃ x, x.length = n ∧ cost x = .panic cs) := by
  induction vs with
  | nil => exact Or.inl ⟨[], rfl, rfl, by simp, by intro v hv; cases hv⟩
  | cons v vs ih =>
    unfold shrinkTail
    obtain ⟨p, hp, hpl⟩ := affine_ok (ε := ε) o hn x0 v.1 x0 o.half h0 (hvs v (by simp)) h0
    rw [hp]
    simp only [bind_ok']
    rcases hc p hpl with ⟨c, hcp, hnc⟩ | hpan
    · rw [hcp]
      simp only [bind_ok']
      rcases ih (fun u hu => hvs u (by simp [hu])) with ⟨r, hr, hrl, hrd, hre⟩ | ⟨hr, hx⟩
      · rw [hr]
        simp only [bind_ok']
        refine Or.inl ⟨_, rfl, by simp [hrl], ?_, ?_⟩
        · intro u hu
          rcases List.mem_cons.1 hu with h | h
          · rw [h]; exact hpl
          · exact hrd u h
        · intro u hu
          rcases List.mem_cons.1 hu with h | h
          · rw [h]; exact ⟨hcp, hnc⟩
          · exact hre u h
      · rw [hr]
        exact Or.inr ⟨rfl, hx⟩
    · rw [hpan]
      exact Or.inr ⟨rfl, p, hpl, hpan⟩

theorem shrink_cases {cost : List α → Outcome ε α} {Num : α → Prop} {n : Nat} {cs : String}
    (hn : 0 < n) (hc : CostSpec cost Num n cs) (s : List (Vertex α)) (hs : Shape n s)
    (hev : Evaluated cost Num s) :
    (∃ s', shrink o cost s = .ok s' ∧ Shape n s' ∧ Evaluated cost Num s' ∧ s'.head? = s.head?) ∨
    (shrink o cost s = .panic cs ∧ ∃ x, x.length = n ∧ cost x = .panic cs) := by
  obtain ⟨hl, hd⟩ := hs
  match s, hl, hd, hev with
  | v0 :: vs, hl, hd, hev =>
    simp only [shrink]
    rcases shrinkTail_cases (o := o) hn hc v0.1 (hd v0 (by simp)) vs (fun v hv => hd v (by simp [hv])) with
      ⟨r, hr, hrl, hrd, hre⟩ | ⟨hr, hx⟩
    · rw [hr]
      refine Or.inl ⟨v0 :: r, rfl, ⟨by simpa [hrl] using hl, ?_⟩, ?_, rfl⟩
      · intro u hu
        rcases List.mem_cons.1 hu with h | h
        · rw [h]; exact hd v0 (by simp)
        · exact hrd u h
      · intro u hu
        rcases List.mem_cons.1 hu with h | h
        · rw [h]; exact hev v0 (by simp)
        · exact hre u h
    · rw [hr]
      exact Or.inr ⟨rfl, hx⟩

/-- What one `next_iter` can do. -/
def IterOk (cost : List α → Outcome ε α) (Num : α → Prop) (n : Nat) (s : List (Vertex α))
    (r : Outcome ε (List (Vertex α) × Action)) : Prop :=
  ∃ s' a, r = .ok (s', a) ∧ Shape n s' ∧ Evaluated cost Num s' ∧ s'.head? = s.head?

def IterPanic (cost : List α → Outcome ε α) (n : Nat) (cs : String)
    (r : Outcome ε (List (Vertex α) × Action)) : Prop :=
  r = .panic cs ∧ ∃ x, x.length = n ∧ cost x = .panic cs

theorem nextIter_unfold (cost : List α → Outcome ε α) (b : Vertex α) (mid : List (Vertex α)) (w : Vertex α) :
    nextIter o cost (b :: (mid ++ [w])) =
    (centroid o (b :: (mid ++ [w])) : Outcome ε (List α)).bind fun x0 =>
    (reflect o x0 w.1 : Outcome ε (List α)).bind fun xr =>
    (cost xr).bind fun cr =>
      if o.lt cr ((b :: mid).getLast (by simp)).2 && o.le b.2 cr then .ok (b :: (mid ++ [(xr, cr)]), .reflection)
      else if o.lt cr b.2 then
        (expand o x0 xr : Outcome ε (List α)).bind fun xe =>
        (cost xe).bind fun ce =>
          .ok (b :: (mid ++ [if o.lt ce cr then (xe, ce) else (xr, cr)]), .expansion)
      else if o.le ((b :: mid).getLast (by simp)).2 cr then
        if o.lt cr w.2 then
          (contract o x0 xr : Outcome ε (List α)).bind fun xc =>
          (cost xc).bind fun cc =>
            if o.le cc cr then .ok (b :: (mid ++ [(xc, cc)]), .contractionOutside)
            else (shrink o cost (b :: (mid ++ [w]))).bind fun s' => .ok (s', .shrink)
        else
          (contract o x0 w.1 : Outcome ε (List α)).bind fun xc =>
          (cost xc).bind fun cc =>
            if o.lt cc w.2 then .ok (b :: (mid ++ [(xc, cc)]), .contractionInside)
            else (shrink o cost (b :: (mid ++ [w]))).bind fun s' => .ok (s', .shrink)
      else .panic siteUnreachable := by
  have hdrop : (b :: (mid ++ [w])).dropLast = b :: mid := by
    rw [← List.cons_append, List.dropLast_concat]
  have hl1 : (b :: mid).getLast? = some ((b :: mid).getLast (by simp)) :=
    List.getLast?_eq_some_getLast (by simp)
  have hl2 : (b :: (mid ++ [w])).getLast? = some w := by
    rw [← List.cons_append, List.getLast?_concat]
  unfold nextIter
  rw [hdrop, hl1, hl2]
  simp only [List.head?_cons, replaceLast_eq]

/-- **One `next_iter`** on a well-shaped, evaluated simplex: it either returns a simplex of the same
shape, all of whose vertices are evaluated, with the same first vertex — or a cost evaluation panicked. In
particular none of the index / argmin-math / "unreachable point" sites fires. -/
theorem nextIter_cases {cost : List α → Outcome ε α} {Num : α → Prop} {n : Nat} {cs : String}
    (L : OrdLaws o Num) (hn : 0 < n) (hc : CostSpec cost Num n cs) (s : List (Vertex α))
    (hs : Shape n s) (hev : Evaluated cost Num s) :
    IterOk cost Num n s (nextIter o cost s) ∨ IterPanic cost n cs (nextIter o cost s) := by
  obtain ⟨b, mid, w, rfl⟩ := hs.destruct hn
  have hb : b.1.length = n := hs.2 b (by simp)
  have hw : w.1.length = n := hs.2 w (by simp)
  have hbn : Num b.2 := (hev b (by simp)).2
  have hwn : Num w.2 := (hev w (by simp)).2
  have hswmem : (b :: mid).getLast (by simp) ∈ b :: (mid ++ [w]) := by
    have := List.getLast_mem (l := b :: mid) (by simp)
    rcases List.mem_cons.1 this with h | h
    · rw [h]; simp
    · simp [h]
  have hswn : Num ((b :: mid).getLast (by simp)).2 := (hev _ hswmem).2
  rw [nextIter_unfold]
  generalize (b :: mid).getLast (by simp) = sw at hswn
  obtain ⟨x0, hx0, hx0l⟩ := centroid_ok (o := o) (ε := ε) hn _ hs
  rw [hx0]
  simp only [bind_ok']
  obtain ⟨xr, hxr, hxrl⟩ := affine_ok (ε := ε) o hn x0 x0 w.1 o.one hx0l hx0l hw
  unfold reflect
  rw [hxr]
  simp only [bind_ok']
  rcases hc xr hxrl with ⟨cr, hcr, hcrn⟩ | hpan
  case inr => rw [hpan]; exact Or.inr ⟨rfl, xr, hxrl, hpan⟩
  rw [hcr]
  simp only [bind_ok']
  have okReplace : ∀ (v : Vertex α) (a : Action), v.1.length = n → (cost v.1 = .ok v.2 ∧ Num v.2) →
      IterOk cost Num n (b :: (mid ++ [w])) (Outcome.ok (b :: (mid ++ [v]), a)) := by
    intro v a hv hv2
    exact ⟨_, a, rfl, shape_replace b mid w v hs hv, evaluated_replace b mid w v hev hv2, rfl⟩
  have okShrink : IterOk cost Num n (b :: (mid ++ [w]))
        ((shrink o cost (b :: (mid ++ [w]))).bind fun s' => .ok (s', Action.shrink)) ∨
      IterPanic cost n cs ((shrink o cost (b :: (mid ++ [w]))).bind fun s' => .ok (s', Action.shrink)) := by
    rcases shrink_cases (o := o) hn hc _ hs hev with ⟨s', hs', h1, h2, h3⟩ | ⟨hp, hx⟩
    · rw [hs']; exact Or.inl ⟨s', .shrink, rfl, h1, h2, h3⟩
    · rw [hp]; exact Or.inr ⟨rfl, hx⟩
  by_cases h1 : (o.lt cr sw.2 && o.le b.2 cr) = true
  · rw [if_pos h1]
    exact Or.inl (okReplace (xr, cr) _ hxrl ⟨hcr, hcrn⟩)
  rw [if_neg h1]
  by_cases h2 : o.lt cr b.2 = true
  · rw [if_pos h2]
    obtain ⟨xe, hxe, hxel⟩ := affine_ok (ε := ε) o hn x0 xr x0 o.two hx0l hxrl hx0l
    unfold expand
    rw [hxe]
    simp only [bind_ok']
    rcases hc xe hxel with ⟨ce, hce, hcen⟩ | hpan
    · rw [hce]
      simp only [bind_ok']
      by_cases h3 : o.lt ce cr = true
      · rw [if_pos h3]; exact Or.inl (okReplace (xe, ce) _ hxel ⟨hce, hcen⟩)
      · rw [if_neg h3]; exact Or.inl (okReplace (xr, cr) _ hxrl ⟨hcr, hcrn⟩)
    · rw [hpan]; exact Or.inr ⟨rfl, xe, hxel, hpan⟩
  rw [if_neg h2]
  have h2' : o.lt cr b.2 = false := by simpa using h2
  have hble : o.le b.2 cr = true := (L.le_iff b.2 cr hbn hcrn).2 h2'
  have hsw : o.lt cr sw.2 = false := by
    cases hlt : o.lt cr sw.2 with
    | false => rfl
    | true => rw [hlt, hble] at h1; exact absurd rfl h1
  have h3 : o.le sw.2 cr = true := (L.le_iff sw.2 cr hswn hcrn).2 hsw
  rw [if_pos h3]
  by_cases h4 : o.lt cr w.2 = true
  · rw [if_pos h4]
    obtain ⟨xc, hxc, hxcl⟩ := affine_ok (ε := ε) o hn x0 xr x0 o.half hx0l hxrl hx0l
    unfold contract
    rw [hxc]
    simp only [bind_ok']
    rcases hc xc hxcl with ⟨cc, hcc, hccn⟩ | hpan
    · rw [hcc]
      simp only [bind_ok']
      by_cases h5 : o.le cc cr = true
      · rw [if_pos h5]; exact Or.inl (okReplace (xc, cc) _ hxcl ⟨hcc, hccn⟩)
      · rw [if_neg h5]; exact okShrink
    · rw [hpan]; exact Or.inr ⟨rfl, xc, hxcl, hpan⟩
  · rw [if_neg h4]
    obtain ⟨xc, hxc, hxcl⟩ := affine_ok (ε := ε) o hn x0 w.1 x0 o.half hx0l hw hx0l
    unfold contract
    rw [hxc]
    simp only [bind_ok']
    rcases hc xc hxcl with ⟨cc, hcc, hccn⟩ | hpan
    · rw [hcc]
      simp only [bind_ok']
      by_cases h5 : o.lt cc w.2 = true
      · rw [if_pos h5]; exact Or.inl (okReplace (xc, cc) _ hxcl ⟨hcc, hccn⟩)
      · rw [if_neg h5]; exact okShrink
    · rw [hpan]; exact Or.inr ⟨rfl, xc, hxcl, hpan⟩

end AlphaG.NelderMead
