import AlphaG.Lemmas.RangesSpec
/-
Linear part of the analysis of `contiguous_ranges`: the scan yields exactly the maximal linear
runs, sorted; structure of the first/last merge.
-/
namespace AlphaG.Ranges

/-- maximal linear run of `f` inside the window `[lo, hi)` -/
def LinRun (f : Nat → Bool) (lo hi s e : Nat) : Prop :=
  lo ≤ s ∧ s < e ∧ e ≤ hi ∧ (∀ j, s ≤ j → j < e → f j = true) ∧
    (s = lo ∨ f (s - 1) = false) ∧ (e = hi ∨ f e = false)

theorem bool_contra {b : Bool} (h1 : b = true) (h2 : b = false) : False := by
  rw [h1] at h2; cases h2

theorem linRun_left (f : Nat → Bool) (lo : Nat) : ∀ j, lo ≤ j → f j = true →
    ∃ s, lo ≤ s ∧ s ≤ j ∧ (∀ x, s ≤ x → x ≤ j → f x = true) ∧ (s = lo ∨ f (s - 1) = false) := by
  intro j
  induction j with
  | zero =>
    intro h hf
    refine ⟨0, h, Nat.le_refl _, ?_, Or.inl (by omega)⟩
    intro x _ hx
    have : x = 0 := by omega
    rw [this]; exact hf
  | succ j ih =>
    intro h hf
    by_cases hlo : lo = j + 1
    · refine ⟨j + 1, by omega, Nat.le_refl _, ?_, Or.inl hlo.symm⟩
      intro x h1 h2
      have : x = j + 1 := by omega
      rw [this]; exact hf
    · cases hfj : f j with
      | false =>
        refine ⟨j + 1, h, Nat.le_refl _, ?_, Or.inr (by simpa using hfj)⟩
        intro x h1 h2
        have : x = j + 1 := by omega
        rw [this]; exact hf
      | true =>
        obtain ⟨s, a1, a2, a3, a4⟩ := ih (by omega) hfj
        refine ⟨s, a1, by omega, ?_, a4⟩
        intro x h1 h2
        by_cases hx : x = j + 1
        · rw [hx]; exact hf
        · exact a3 x h1 (by omega)

theorem linRun_right (f : Nat → Bool) (hi : Nat) : ∀ d j, j + d + 1 = hi → f j = true →
    ∃ e, j < e ∧ e ≤ hi ∧ (∀ x, j ≤ x → x < e → f x = true) ∧ (e = hi ∨ f e = false) := by
  intro d
  induction d with
  | zero =>
    intro j h hf
    refine ⟨hi, by omega, Nat.le_refl _, ?_, Or.inl rfl⟩
    intro x h1 h2
    have : x = j := by omega
    rw [this]; exact hf
  | succ d ih =>
    intro j h hf
    cases hfj : f (j + 1) with
    | false =>
      refine ⟨j + 1, by omega, by omega, ?_, Or.inr hfj⟩
      intro x h1 h2
      have : x = j := by omega
      rw [this]; exact hf
    | true =>
      obtain ⟨e, a1, a2, a3, a4⟩ := ih (j + 1) (by omega) hfj
      refine ⟨e, by omega, a2, ?_, a4⟩
      intro x h1 h2
      by_cases hx : x = j
      · rw [hx]; exact hf
      · exact a3 x (by omega) h2

theorem linRun_exists (f : Nat → Bool) (lo hi j : Nat) (h1 : lo ≤ j) (h2 : j < hi)
    (hf : f j = true) : ∃ s e, LinRun f lo hi s e ∧ s ≤ j ∧ j < e := by
  obtain ⟨s, a1, a2, a3, a4⟩ := linRun_left f lo j h1 hf
  obtain ⟨e, b1, b2, b3, b4⟩ := linRun_right f hi (hi - 1 - j) j (by omega) hf
  refine ⟨s, e, ⟨a1, by omega, b2, ?_, a4, b4⟩, a2, b1⟩
  intro x h3 h4
  by_cases hx : x ≤ j
  · exact a3 x h3 hx
  · exact b3 x (by omega) h4

/-- two maximal runs in the same window sharing a point coincide -/
theorem linRun_unique (f : Nat → Bool) (lo hi s e s' e' w : Nat) (h : LinRun f lo hi s e)
    (h' : LinRun f lo hi s' e') (hw : s ≤ w ∧ w < e) (hw' : s' ≤ w ∧ w < e') :
    s = s' ∧ e = e' := by
  obtain ⟨a1, a2, a3, a4, a5, a6⟩ := h
  obtain ⟨b1, b2, b3, b4, b5, b6⟩ := h'
  constructor
  · apply Classical.byContradiction
    intro hc
    by_cases hlt : s < s'
    · rcases b5 with b5 | b5
      · omega
      · exact bool_contra (a4 (s' - 1) (by omega) (by omega)) b5
    · rcases a5 with a5 | a5
      · omega
      · exact bool_contra (b4 (s - 1) (by omega) (by omega)) a5
  · apply Classical.byContradiction
    intro hc
    by_cases hlt : e < e'
    · rcases a6 with a6 | a6
      · omega
      · exact bool_contra (b4 e (by omega) (by omega)) a6
    · rcases b6 with b6 | b6
      · omega
      · exact bool_contra (a4 e' (by omega) (by omega)) b6

theorem list_shape {α : Type} (L : List α) :
    L = [] ∨ (∃ r, L = [r]) ∨ ∃ a mid b, L = a :: (mid ++ [b]) := by
  cases L with
  | nil => exact Or.inl rfl
  | cons a t =>
    by_cases ht : t = []
    · exact Or.inr (Or.inl ⟨a, by rw [ht]⟩)
    · exact Or.inr (Or.inr ⟨a, t.dropLast, t.getLast ht, by
        rw [List.dropLast_concat_getLast ht]⟩)

theorem swapRemove0_perm {β : Type} (a : β) (M : List β) : (swapRemove0 (a :: M)).Perm M := by
  cases M with
  | nil => exact List.Perm.refl _
  | cons x xs =>
    show ((x :: xs).getLast (List.cons_ne_nil x xs) :: (x :: xs).dropLast).Perm (x :: xs)
    have h := List.perm_append_singleton ((x :: xs).getLast (List.cons_ne_nil x xs))
      (x :: xs).dropLast
    rw [List.dropLast_concat_getLast] at h
    exact h.symm

theorem mergeRing_snoc (n : Nat) (a : Nat × Nat) (mid : List (Nat × Nat)) (b : Nat × Nat) :
    mergeRing n (a :: (mid ++ [b])) =
      if a.1 = 0 ∧ b.2 = n then swapRemove0 (a :: mid) ++ [(b.1, a.2)]
      else a :: (mid ++ [b]) := by
  cases mid with
  | nil => simp [mergeRing]
  | cons m ms =>
    have h1 : (m :: (ms ++ [b])).getLast (List.cons_ne_nil _ _) = b :=
      List.getLast_concat (l := m :: ms)
    have h2 : (m :: (ms ++ [b])).dropLast = m :: ms := by
      rw [← List.cons_append, List.dropLast_concat]
    show mergeRing n (a :: m :: (ms ++ [b])) = _
    unfold mergeRing
    simp only [h1, h2, List.cons_append]

theorem scan_mem (f : Nat → Bool) (l : List Bool) :
    ∀ (i : Nat) (st : Option Nat), (∀ j, j < l.length → l[j]? = some (f (i + j))) →
      (∀ s0, st = some s0 → s0 < i ∧ ∀ j, s0 ≤ j → j < i → f j = true) →
      ∀ s e, (s, e) ∈ scan l i st ↔ LinRun f (st.getD i) (i + l.length) s e := by
  induction l with
  | nil =>
    intro i st _ hst s e
    cases st with
    | none =>
      simp only [scan, List.not_mem_nil, false_iff, LinRun, Option.getD_none, List.length_nil]
      omega
    | some s0 =>
      obtain ⟨h1, h2⟩ := hst s0 rfl
      simp only [scan, List.mem_singleton, Prod.mk.injEq, LinRun, Option.getD_some,
        List.length_nil, Nat.add_zero]
      constructor
      · rintro ⟨rfl, rfl⟩
        exact ⟨Nat.le_refl _, h1, Nat.le_refl _, h2, Or.inl rfl, Or.inl rfl⟩
      · rintro ⟨a1, a2, a3, a4, a5, a6⟩
        constructor
        · rcases a5 with a5 | a5
          · exact a5
          · apply Classical.byContradiction
            intro hc
            have := h2 (s - 1) (by omega) (by omega)
            rw [a5] at this; cases this
        · rcases a6 with a6 | a6
          · exact a6
          · apply Classical.byContradiction
            intro hc
            have := h2 e (by omega) (by omega)
            rw [a6] at this; cases this
  | cons b rest ih =>
    intro i st hl hst s e
    have hb : b = f i := by
      have := hl 0 (by simp)
      simpa using this
    have hl' : ∀ j, j < rest.length → rest[j]? = some (f (i + 1 + j)) := by
      intro j hj
      have := hl (j + 1) (by simp; omega)
      rw [List.getElem?_cons_succ] at this
      rw [this]; congr 2; omega
    have hlen : i + (b :: rest).length = i + 1 + rest.length := by simp; omega
    rw [hlen]
    cases hfb : b with
    | true =>
      have hfi : f i = true := by rw [← hb, hfb]
      cases st with
      | none =>
        have := ih (i + 1) (some i) hl' (by
          intro s0 h; cases h
          refine ⟨by omega, ?_⟩
          intro j h1 h2
          have : j = i := by omega
          rw [this]; exact hfi) s e
        simpa only [scan, Option.getD_some, Option.getD_none] using this
      | some s0 =>
        obtain ⟨h1, h2⟩ := hst s0 rfl
        have := ih (i + 1) (some s0) hl' (by
          intro s0' h; cases h
          refine ⟨by omega, ?_⟩
          intro j h3 h4
          by_cases hj : j = i
          · rw [hj]; exact hfi
          · exact h2 j h3 (by omega)) s e
        simpa only [scan, Option.getD_some] using this
    | false =>
      have hfi : f i = false := by rw [← hb, hfb]
      have ih' := ih (i + 1) none hl' (by intro s0 h; cases h) s e
      simp only [Option.getD_none] at ih'
      cases st with
      | none =>
        simp only [scan, Option.getD_none, ih', LinRun]
        constructor
        · rintro ⟨a1, a2, a3, a4, a5, a6⟩
          refine ⟨by omega, a2, a3, a4, ?_, a6⟩
          rcases a5 with a5 | a5
          · right; rw [a5]; simpa using hfi
          · right; exact a5
        · rintro ⟨a1, a2, a3, a4, a5, a6⟩
          have hsi : s ≠ i := by
            intro h
            have := a4 s (Nat.le_refl _) a2
            rw [h, hfi] at this; cases this
          refine ⟨by omega, a2, a3, a4, ?_, a6⟩
          rcases a5 with a5 | a5
          · omega
          · right; exact a5
      | some s0 =>
        obtain ⟨h1, h2⟩ := hst s0 rfl
        simp only [scan, List.mem_cons, Prod.mk.injEq, Option.getD_some, ih', LinRun]
        constructor
        · rintro (⟨rfl, rfl⟩ | ⟨a1, a2, a3, a4, a5, a6⟩)
          · exact ⟨Nat.le_refl _, h1, by omega, h2, Or.inl rfl, Or.inr hfi⟩
          · refine ⟨by omega, a2, a3, a4, ?_, a6⟩
            rcases a5 with a5 | a5
            · right; rw [a5]; simpa using hfi
            · right; exact a5
        · rintro ⟨a1, a2, a3, a4, a5, a6⟩
          by_cases hsi : s ≤ i
          · left
            have hei : e ≤ i := by
              apply Classical.byContradiction
              intro hc
              have := a4 i hsi (by omega)
              rw [hfi] at this; cases this
            constructor
            · rcases a5 with a5 | a5
              · exact a5
              · apply Classical.byContradiction
                intro hc
                have := h2 (s - 1) (by omega) (by omega)
                rw [a5] at this; cases this
            · rcases a6 with a6 | a6
              · omega
              · apply Classical.byContradiction
                intro hc
                have := h2 e (by omega) (by omega)
                rw [a6] at this; cases this
          · right
            refine ⟨by omega, a2, a3, a4, ?_, a6⟩
            rcases a5 with a5 | a5
            · omega
            · right; exact a5

theorem scan_lb (l : List Bool) : ∀ (i : Nat) (st : Option Nat),
    (∀ s0, st = some s0 → s0 ≤ i) → ∀ a, a ∈ scan l i st → st.getD i ≤ a.1 := by
  induction l with
  | nil =>
    intro i st hst a ha
    cases st with
    | none => simp [scan] at ha
    | some s0 => simp [scan] at ha; simp [ha]
  | cons b rest ih =>
    intro i st hst a ha
    cases b <;> cases st <;> simp only [scan, List.mem_cons] at ha
    · have := ih (i + 1) none (by intro s0 h; cases h) a ha
      simp at this ⊢; omega
    · rename_i s0
      have h0 := hst s0 rfl
      rcases ha with ha | ha
      · simp [ha]
      · have := ih (i + 1) none (by intro s0 h; cases h) a ha
        simp at this ⊢; omega
    · have := ih (i + 1) (some i) (by intro s0 h; cases h; omega) a ha
      simpa using this
    · rename_i s0
      have h0 := hst s0 rfl
      have := ih (i + 1) (some s0) (by intro s0 h; cases h; omega) a ha
      simpa using this

theorem scan_sorted (l : List Bool) : ∀ (i : Nat) (st : Option Nat),
    (scan l i st).Pairwise (fun a b => a.2 < b.1) := by
  induction l with
  | nil => intro i st; cases st <;> simp [scan]
  | cons b rest ih =>
    intro i st
    cases b <;> cases st <;> simp only [scan]
    · exact ih _ _
    · refine List.Pairwise.cons ?_ (ih _ _)
      intro a ha
      have := scan_lb rest (i + 1) none (by intro s0 h; cases h) a ha
      simp at this ⊢; omega
    · exact ih _ _
    · exact ih _ _

/-- ring run expressed with the maximal linear runs of the window `[0, n)` -/
def RingRunF (f : Nat → Bool) (n : Nat) (r : Nat × Nat) : Prop :=
  (LinRun f 0 n r.1 r.2 ∧ ¬(r.1 = 0 ∧ f (n - 1) = true) ∧ ¬(r.2 = n ∧ f 0 = true)) ∨
  (r.2 < r.1 ∧ LinRun f 0 n 0 r.2 ∧ LinRun f 0 n r.1 n)

theorem linRun_first {f : Nat → Bool} {lo hi s e : Nat} (h : LinRun f lo hi s e) : f s = true :=
  h.2.2.2.1 s (Nat.le_refl _) h.2.1

theorem linRun_last {f : Nat → Bool} {lo hi s e : Nat} (h : LinRun f lo hi s e) :
    f (e - 1) = true :=
  h.2.2.2.1 (e - 1) (by have := h.2.1; omega) (by have := h.2.1; omega)

theorem perm_of_nodup {α : Type} [DecidableEq α] {l₁ l₂ : List α} (h1 : l₁.Nodup)
    (h2 : l₂.Nodup) (h : ∀ a, a ∈ l₁ ↔ a ∈ l₂) : l₁.Perm l₂ := by
  rw [List.perm_iff_count]
  intro a
  rw [h1.count, h2.count]
  simp only [h a]

theorem merge_spec (f : Nat → Bool) (n : Nat) (L : List (Nat × Nat)) (hn : 0 < n)
    (hmem : ∀ s e, (s, e) ∈ L ↔ LinRun f 0 n s e)
    (hsort : L.Pairwise (fun a b => a.2 < b.1)) (hnf : ¬ LinRun f 0 n 0 n) :
    (∀ r, r ∈ mergeRing n L ↔ RingRunF f n r) ∧ (mergeRing n L).Nodup := by
  have hb : ∀ a, a ∈ L → a.1 < a.2 ∧ a.2 ≤ n := by
    intro a ha
    have := (hmem a.1 a.2).1 ha
    exact ⟨this.2.1, this.2.2.1⟩
  have hnd : L.Nodup := by
    rw [List.nodup_iff_pairwise_ne]
    refine List.Pairwise.imp_of_mem ?_ hsort
    intro a b ha _ hab heq
    have := (hb a ha).1
    rw [heq] at hab this
    omega
  by_cases hc : f 0 = true ∧ f (n - 1) = true
  · obtain ⟨s0', e0, hr0, hs0, _⟩ := linRun_exists f 0 n 0 (Nat.le_refl _) hn hc.1
    have : s0' = 0 := by omega
    subst this
    obtain ⟨s1, e1', hr1, _, he1⟩ := linRun_exists f 0 n (n - 1) (Nat.zero_le _) (by omega) hc.2
    have : e1' = n := by have := hr1.2.2.1; omega
    subst this
    have hm0 := (hmem _ _).2 hr0
    have hm1 := (hmem _ _).2 hr1
    have hne : e0 ≠ e1' := by
      intro h; rw [h] at hr0; exact hnf hr0
    rcases list_shape L with rfl | ⟨r, rfl⟩ | ⟨a, mid, b, rfl⟩
    · simp at hm0
    · simp only [List.mem_singleton] at hm0 hm1
      rw [← hm0] at hm1
      simp only [Prod.mk.injEq] at hm1
      omega
    · simp only [List.pairwise_cons, List.pairwise_append, List.mem_append, List.mem_cons,
        List.Pairwise.nil, List.not_mem_nil, or_false, false_imp_iff, implies_true, true_and,
        and_true] at hsort
      obtain ⟨P1, P2, P3⟩ := hsort
      have P3' : ∀ x, x ∈ mid → x.2 < b.1 := fun x hx => P3 x hx b rfl
      have hbb := hb b (by simp)
      have hba := hb a (by simp)
      have ha : a = (0, e0) := by
        simp only [List.mem_cons, List.mem_append, List.not_mem_nil, or_false] at hm0
        rcases hm0 with h | h
        · exact h.symm
        · have := P1 _ h
          simp at this
      have hbe : b = (s1, e1') := by
        simp only [List.mem_cons, List.mem_append, List.not_mem_nil, or_false] at hm1
        rcases hm1 with h | h | h
        · rw [ha] at h
          simp only [Prod.mk.injEq] at h
          omega
        · have := P3' _ h
          simp only at this
          omega
        · exact h.symm
      have hperm : (mergeRing e1' (a :: (mid ++ [b]))).Perm (mid ++ [(s1, e0)]) := by
        rw [mergeRing_snoc, if_pos (by rw [ha, hbe]; exact ⟨rfl, rfl⟩)]
        have : (b.1, a.2) = (s1, e0) := by rw [ha, hbe]
        rw [this]
        exact List.Perm.append_right _ (swapRemove0_perm a mid)
      have hlt : e0 < s1 := by
        have := P1 b (Or.inr rfl)
        rw [ha, hbe] at this
        exact this
      constructor
      · intro r
        rw [hperm.mem_iff]
        simp only [List.mem_append, List.mem_cons, List.not_mem_nil, or_false]
        constructor
        · rintro (h | h)
          · left
            have hrL : r ∈ a :: (mid ++ [b]) := by simp [h]
            have h1 := P1 r (Or.inl h)
            have h2 := P3' r h
            refine ⟨(hmem r.1 r.2).1 hrL, ?_, ?_⟩
            · omega
            · omega
          · right
            rw [h]
            exact ⟨hlt, hr0, hr1⟩
        · rintro (⟨h1, h2, h3⟩ | ⟨h1, h2, h3⟩)
          · have hrL := (hmem _ _).2 h1
            simp only [List.mem_cons, List.mem_append, List.not_mem_nil, or_false] at hrL
            rcases hrL with h | h | h
            · exfalso; apply h2
              have : r.1 = 0 := by
                have := congrArg Prod.fst h; rw [ha] at this; exact this
              exact ⟨this, hc.2⟩
            · exact Or.inl h
            · exfalso; apply h3
              have : r.2 = e1' := by
                have := congrArg Prod.snd h; rw [hbe] at this; exact this
              exact ⟨this, hc.1⟩
          · right
            have q1 := linRun_unique f 0 e1' 0 r.2 0 e0 0 h2 hr0 ⟨Nat.le_refl _, h2.2.1⟩
              ⟨Nat.le_refl _, hr0.2.1⟩
            have q2 := linRun_unique f 0 e1' r.1 e1' s1 e1' (e1' - 1) h3 hr1
              ⟨by have := h3.2.1; omega, by omega⟩ ⟨by have := hr1.2.1; omega, by omega⟩
            exact Prod.ext q2.1 q1.2
      · rw [hperm.nodup_iff, List.nodup_append]
        refine ⟨?_, by simp, ?_⟩
        · have : mid.Sublist (a :: (mid ++ [b])) :=
            (List.sublist_append_left mid [b]).trans (List.sublist_cons_self _ _)
          exact hnd.sublist this
        · intro x hx y hy hxy
          simp only [List.mem_singleton] at hy
          rw [hy] at hxy
          have := hb x (by simp [hx])
          rw [hxy] at this
          simp only at this
          omega
  · have hmerge : mergeRing n L = L := by
      rcases list_shape L with rfl | ⟨r, rfl⟩ | ⟨a, mid, b, rfl⟩
      · rfl
      · rfl
      · rw [mergeRing_snoc, if_neg]
        rintro ⟨h1, h2⟩
        apply hc
        have la := (hmem a.1 a.2).1 (by simp)
        have lb := (hmem b.1 b.2).1 (by simp)
        have fa := linRun_first la
        have fb := linRun_last lb
        rw [h1] at fa; rw [h2] at fb
        exact ⟨fa, fb⟩
    rw [hmerge]
    refine ⟨?_, hnd⟩
    intro r
    have := hmem r.1 r.2
    rw [this]
    constructor
    · intro h
      left
      refine ⟨h, ?_, ?_⟩
      · rintro ⟨h1, h2⟩
        have := linRun_first h
        rw [h1] at this
        exact hc ⟨this, h2⟩
      · rintro ⟨h1, h2⟩
        have := linRun_last h
        rw [h1] at this
        exact hc ⟨h2, this⟩
    · rintro (⟨h1, _, _⟩ | ⟨_, h2, h3⟩)
      · exact h1
      · exfalso
        apply hc
        exact ⟨linRun_first h2, linRun_last h3⟩


end AlphaG.Ranges
