import AlphaG.Lemmas.CrcOrbitDef
/-
Segments 8..11 of the orbit of POLY under the zero-input map: each is one kernel
evaluation of 32800 register steps (`decide +kernel`; no `native_decide`). The junction states
are literals checked by the kernel (generated once with a script; a wrong literal fails).
-/
namespace AlphaG.Crc

theorem orbit_seg8 : walk 1356097871 32800 = some 3903790831 := by decide +kernel
theorem orbit_seg9 : walk 3903790831 32800 = some 3192863771 := by decide +kernel
theorem orbit_seg10 : walk 3192863771 32800 = some 3299059080 := by decide +kernel
theorem orbit_seg11 : walk 3299059080 32800 = some 3143184419 := by decide +kernel

end AlphaG.Crc
