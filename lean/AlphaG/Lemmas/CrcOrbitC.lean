import AlphaG.Lemmas.CrcOrbitDef
/-
Segments 8..11 of the orbit of 1 under the zero-input map: each is one kernel
evaluation of 32800 register steps (`decide +kernel`). The junction states
are literals checked by the kernel (generated once with a script; a wrong literal fails).
-/
namespace AlphaG.Crc

theorem orbit_seg8 : walk 2712195742 32800 = some 3568454447 := by decide +kernel
theorem orbit_seg9 : walk 3568454447 32800 = some 2037518023 := by decide +kernel
theorem orbit_seg10 : walk 2037518023 32800 = some 2360032737 := by decide +kernel
theorem orbit_seg11 : walk 2360032737 32800 = some 1935546039 := by decide +kernel

end AlphaG.Crc
