import AlphaG.Model.VertexPipeline
/-
Law-free lemmas for the composed model of `MainEvent::vertex()` (C09b): the glue
(`filterMapOk`, the stage decomposition of a panic / of a result), the panic inventory of the
drift lookup over an arbitrary carrier, the list of sites the clustering model can name.
Core Lean only; nothing here uses a law of the carrier.
-/
namespace AlphaG.VertexPipeline
open AlphaG

/-! ### `filterMapOk` -/

section Glue
variable {ε β γ : Type}

/-- The `Ok` value of a conversion. -/
def okOf (r : Outcome ε γ) : Option γ :=
  match r with
  | .ok y => some y
  | _ => none

theorem filterMapOk_ne_err (f : β → Outcome ε γ) (l : List β) (e : Unit) :
    filterMapOk f l ≠ .err e := by
  induction l with
  | nil => simp [filterMapOk]
  | cons x xs ih =>
    unfold filterMapOk
    cases hx : f x with
    | panic s => simp
    | err e' => simpa using ih
    | ok y =>
      cases hr : filterMapOk f xs with
      | ok ys => simp
      | err e' => exact absurd hr ih
      | panic s => simp

/-- A panic of the `filter_map(.. .ok()).collect()` is the panic of one element's conversion. -/
theorem filterMapOk_panic (f : β → Outcome ε γ) (l : List β) (s : String)
    (h : filterMapOk f l = .panic s) : ∃ x ∈ l, f x = .panic s := by
  induction l with
  | nil => simp [filterMapOk] at h
  | cons x xs ih =>
    unfold filterMapOk at h
    cases hx : f x with
    | panic s' =>
      rw [hx] at h
      simp only [Outcome.panic.injEq] at h
      subst h
      exact ⟨x, by simp, hx⟩
    | err e' =>
      rw [hx] at h
      obtain ⟨y, hy, hfy⟩ := ih h
      exact ⟨y, by simp [hy], hfy⟩
    | ok y =>
      rw [hx] at h
      cases hr : filterMapOk f xs with
      | ok ys => rw [hr] at h; cases h
      | err e' => rw [hr] at h; cases h
      | panic s' =>
        rw [hr] at h
        simp only [Outcome.panic.injEq] at h
        subst h
        obtain ⟨y', hy', hfy'⟩ := ih hr
        exact ⟨y', by simp [hy'], hfy'⟩

/-- A result of the `filter_map(.. .ok()).collect()`: no element's conversion panicked and the
result is the list of the `Ok` values, in order. -/
theorem filterMapOk_ok (f : β → Outcome ε γ) (l : List β) (ys : List γ)
    (h : filterMapOk f l = .ok ys) :
    (∀ x ∈ l, ∀ s, f x ≠ .panic s) ∧ ys = l.filterMap (fun x => okOf (f x)) := by
  induction l generalizing ys with
  | nil =>
    simp only [filterMapOk, Outcome.ok.injEq] at h
    subst h
    simp
  | cons x xs ih =>
    unfold filterMapOk at h
    cases hx : f x with
    | panic s' => rw [hx] at h; cases h
    | err e' =>
      rw [hx] at h
      obtain ⟨h1, h2⟩ := ih ys h
      refine ⟨?_, ?_⟩
      · intro a ha s
        simp only [List.mem_cons] at ha
        rcases ha with rfl | ha
        · rw [hx]; simp
        · exact h1 a ha s
      · simp [hx, okOf, h2]
    | ok y =>
      rw [hx] at h
      cases hr : filterMapOk f xs with
      | err e' => rw [hr] at h; cases h
      | panic s' => rw [hr] at h; cases h
      | ok ys' =>
        rw [hr] at h
        simp only [Outcome.ok.injEq] at h
        subst h
        obtain ⟨h1, h2⟩ := ih ys' hr
        refine ⟨?_, ?_⟩
        · intro a ha s
          simp only [List.mem_cons] at ha
          rcases ha with rfl | ha
          · rw [hx]; simp
          · exact h1 a ha s
        · simp [hx, okOf, h2]

theorem mem_filterMapOk (f : β → Outcome ε γ) (l : List β) (ys : List γ)
    (h : filterMapOk f l = .ok ys) (y : γ) (hy : y ∈ ys) : ∃ x ∈ l, f x = .ok y := by
  rw [(filterMapOk_ok f l ys h).2, List.mem_filterMap] at hy
  obtain ⟨x, hx, hxy⟩ := hy
  refine ⟨x, hx, ?_⟩
  cases hfx : f x with
  | ok y' => rw [hfx] at hxy; simp only [okOf, Option.some.injEq] at hxy; rw [hxy]
  | err e => rw [hfx] at hxy; simp [okOf] at hxy
  | panic s => rw [hfx] at hxy; simp [okOf] at hxy

/-- If no element's conversion panics the collection returns. -/
theorem filterMapOk_total (f : β → Outcome ε γ) (l : List β)
    (h : ∀ x ∈ l, ∀ s, f x ≠ .panic s) : ∃ ys, filterMapOk f l = .ok ys := by
  induction l with
  | nil => exact ⟨[], rfl⟩
  | cons x xs ih =>
    obtain ⟨ys, hys⟩ := ih (fun a ha s => h a (by simp [ha]) s)
    unfold filterMapOk
    cases hx : f x with
    | panic s => exact absurd hx (h x (by simp) s)
    | err e => exact ⟨ys, hys⟩
    | ok y => exact ⟨y :: ys, by rw [hys]⟩

end Glue

variable {α : Type} (P : Pipe α)

/-! ### Stage decomposition -/

/-- `vertex()` panics exactly when one of its five stages does, the earlier ones having
returned; `s` is that stage's site. -/
theorem vertex_panic_stage (ev : Matching.Event α) (s : String) :
    vertexOfSignals P ev = .panic s ↔
      stageAvalanches P ev = .panic s ∨
      ∃ avs, stageAvalanches P ev = .ok avs ∧ (stagePoints P avs = .panic s ∨
        ∃ pts, stagePoints P avs = .ok pts ∧ (stageClusters P pts = .panic s ∨
          ∃ r, stageClusters P pts = .ok r ∧ (stageTracks P pts r.clusters = .panic s ∨
            ∃ ts, stageTracks P pts r.clusters = .ok ts ∧ stageVertex P ts = .panic s))) := by
  unfold vertexOfSignals
  cases h1 : stageAvalanches P ev with
  | err e => simp [Outcome.bind]
  | panic s1 => simp [Outcome.bind]
  | ok avs =>
    cases h2 : stagePoints P avs with
    | err e => simp [Outcome.bind, h2]
    | panic s2 => simp [Outcome.bind, h2]
    | ok pts =>
      cases h3 : stageClusters P pts with
      | err e => simp [Outcome.bind, h2, h3]
      | panic s3 => simp [Outcome.bind, h2, h3]
      | ok r =>
        cases h4 : stageTracks P pts r.clusters with
        | err e => simp [Outcome.bind, h2, h3, h4]
        | panic s4 => simp [Outcome.bind, h2, h3, h4]
        | ok ts => simp [Outcome.bind, h2, h3, h4]

/-- `vertex()` returns exactly when all five stages do; the value is the last stage's. -/
theorem vertex_ok_stage (ev : Matching.Event α) (v : Option (α × α × α)) :
    vertexOfSignals P ev = .ok v ↔
      ∃ avs pts r ts, stageAvalanches P ev = .ok avs ∧ stagePoints P avs = .ok pts ∧
        stageClusters P pts = .ok r ∧ stageTracks P pts r.clusters = .ok ts ∧
        stageVertex P ts = .ok v := by
  unfold vertexOfSignals
  cases h1 : stageAvalanches P ev with
  | err e => simp [Outcome.bind]
  | panic s1 => simp [Outcome.bind]
  | ok avs =>
    cases h2 : stagePoints P avs with
    | err e => simp [Outcome.bind, h2]
    | panic s2 => simp [Outcome.bind, h2]
    | ok pts =>
      cases h3 : stageClusters P pts with
      | err e => simp [Outcome.bind, h2, h3]
      | panic s3 => simp [Outcome.bind, h2, h3]
      | ok r =>
        cases h4 : stageTracks P pts r.clusters with
        | err e => simp [Outcome.bind, h2, h3, h4]
        | panic s4 => simp [Outcome.bind, h2, h3, h4]
        | ok ts => simp [Outcome.bind, h2, h3, h4]

/-! ### The drift lookup over an arbitrary carrier -/

/-- The shape the lookup relies on (no arithmetic): at least one z-slice, at least two knots per
table ("unit tests guarantee that the inner vector has at least 2 elements", drift.rs). -/
def DriftShape (ts : List (Drift.Slice α)) : Prop :=
  ts ≠ [] ∧ ∀ sl ∈ ts, 2 ≤ sl.table.length

/-- `DriftTable::at` on a table with at least two knots cannot panic, whatever the carrier:
`rhs_index - 1` underflows only when the first knot's time is `> t`, which the range check
`t < self.0[0].0` has just excluded (`a > b` *is* `b < a`); every index is in bounds. -/
theorem tableAt_no_panic (O : Drift.Ops α) (tb : List (Drift.Knot α)) (t : α)
    (h2 : 2 ≤ tb.length) (s : String) : Drift.tableAt O tb t ≠ .panic s := by
  intro h
  unfold Drift.tableAt at h
  have h0 : tb[0]? = some tb[0] := List.getElem?_eq_getElem (by omega)
  have hl : tb[tb.length - 1]? = some tb[tb.length - 1] := List.getElem?_eq_getElem (by omega)
  rw [h0, hl] at h
  simp only at h
  split at h
  · cases h
  · rename_i hguard
    have hrhs : 1 ≤ Drift.rhsIndex O tb t ∧ Drift.rhsIndex O tb t < tb.length := by
      unfold Drift.rhsIndex
      cases hf : List.findIdx? (fun k => O.gt k.t t) tb with
      | none => simp only [Option.getD_none]; omega
      | some i =>
        simp only [Option.getD_some]
        rw [List.findIdx?_eq_some_iff_getElem] at hf
        obtain ⟨hi, hp, _⟩ := hf
        refine ⟨?_, hi⟩
        rcases Nat.eq_zero_or_pos i with hz | hz
        · subst hz
          exfalso
          apply hguard
          simp only [Drift.Ops.gt] at hp
          simp [hp]
        · exact hz
    rw [if_neg (by omega)] at h
    have h3 : tb[Drift.rhsIndex O tb t - 1]? = some tb[Drift.rhsIndex O tb t - 1] :=
      List.getElem?_eq_getElem (by omega)
    have h4 : tb[Drift.rhsIndex O tb t]? = some tb[Drift.rhsIndex O tb t] :=
      List.getElem?_eq_getElem hrhs.2
    rw [h3, h4] at h
    cases h

/-- **Panic inventory of `DriftTables::at`**, any carrier, tables of the right shape: the only
reachable site is `find(..).unwrap()`, and it fires exactly when `|z|` compares false with
*every* bound — not `> ` the last one, not `<=` any: a NaN `z`. -/
theorem tablesAt_panic (O : Drift.Ops α) (ts : List (Drift.Slice α)) (hs : DriftShape ts)
    (z t : α) (s : String) (h : Drift.tablesAt O ts z t = .panic s) :
    s = "drift:find" ∧ (∀ sl ∈ ts, O.ge sl.zUpper (O.abs z) = false) ∧
      ∀ last, ts.getLast? = some last → O.gt (O.abs z) last.zUpper = false := by
  unfold Drift.tablesAt at h
  have hne : ts.length - 1 < ts.length := by
    have := List.length_pos_iff.2 hs.1
    omega
  have hl : ts[ts.length - 1]? = some ts[ts.length - 1] := List.getElem?_eq_getElem hne
  rw [hl] at h
  simp only at h
  split at h
  · cases h
  · rename_i hgt
    cases hf : ts.find? (fun sl => O.ge sl.zUpper (O.abs z)) with
    | some sl =>
      rw [hf] at h
      simp only at h
      exact absurd h (tableAt_no_panic O sl.table t (hs.2 sl (List.mem_of_find?_eq_some hf)) s)
    | none =>
      rw [hf] at h
      simp only [Outcome.panic.injEq] at h
      refine ⟨h.symm, ?_, ?_⟩
      · intro sl hsl
        have := List.find?_eq_none.1 hf sl hsl
        simpa using this
      · intro last hlast
        have : last = ts[ts.length - 1] := by
          rw [List.getLast?_eq_getElem?] at hlast
          rw [hl] at hlast
          exact (Option.some.inj hlast).symm
        subst this
        simpa using hgt

/-- `SpacePoint::try_from` panics exactly where the lookup does. -/
theorem spacePoint_panic (O : Drift.Ops α) (ts : List (Drift.Slice α)) (av : Drift.Avalanche α)
    (s : String) : Drift.spacePoint O ts av = .panic s ↔ Drift.tablesAt O ts av.z av.t = .panic s := by
  unfold Drift.spacePoint
  cases Drift.tablesAt O ts av.z av.t <;> simp

/-- A returned space point keeps the avalanche's `z`. -/
theorem spacePoint_ok_z (O : Drift.Ops α) (ts : List (Drift.Slice α)) (av : Drift.Avalanche α)
    (sp : Drift.SpacePoint α) (h : Drift.spacePoint O ts av = .ok sp) : sp.z = av.z := by
  unfold Drift.spacePoint at h
  cases hc : Drift.tablesAt O ts av.z av.t with
  | ok rc => rw [hc] at h; simp only [Outcome.ok.injEq] at h; rw [← h]
  | err e => rw [hc] at h; cases h
  | panic s => rw [hc] at h; cases h

/-- Stage 2 panics where one avalanche's lookup does. -/
theorem stagePoints_panic (avs : List (Matching.Avalanche α)) (s : String)
    (h : stagePoints P avs = .panic s) : ∃ a ∈ avs, pointOf P a = .panic s := by
  unfold stagePoints at h
  cases hf : filterMapOk (pointOf P) avs with
  | ok sps => rw [hf] at h; cases h
  | err e => rw [hf] at h; cases h
  | panic s' =>
    rw [hf] at h
    simp only [Outcome.panic.injEq] at h
    subst h
    exact filterMapOk_panic _ _ _ hf

/-- Stage 2 returns: every point is the conversion of an avalanche of the list. -/
theorem stagePoints_ok (avs : List (Matching.Avalanche α)) (pts : Array (Hough.Point α))
    (h : stagePoints P avs = .ok pts) :
    (∀ a ∈ avs, ∀ s, pointOf P a ≠ .panic s) ∧
    ∀ p ∈ pts, ∃ a ∈ avs, ∃ sp, pointOf P a = .ok sp ∧ p = toHough sp := by
  unfold stagePoints at h
  cases hf : filterMapOk (pointOf P) avs with
  | err e => rw [hf] at h; cases h
  | panic s' => rw [hf] at h; cases h
  | ok sps =>
    rw [hf] at h
    simp only [Outcome.ok.injEq] at h
    subst h
    refine ⟨(filterMapOk_ok _ _ _ hf).1, ?_⟩
    intro p hp
    rw [List.mem_toArray, List.mem_map] at hp
    obtain ⟨sp, hsp, rfl⟩ := hp
    obtain ⟨a, ha, hfa⟩ := mem_filterMapOk _ _ _ hf sp hsp
    exact ⟨a, ha, sp, hfa, rfl⟩

/-- Stage 2 is total when no lookup panics. -/
theorem stagePoints_total (avs : List (Matching.Avalanche α))
    (h : ∀ a ∈ avs, ∀ s, pointOf P a ≠ .panic s) : ∃ pts, stagePoints P avs = .ok pts := by
  obtain ⟨sps, hs⟩ := filterMapOk_total (pointOf P) avs h
  exact ⟨_, by unfold stagePoints; rw [hs]⟩

end AlphaG.VertexPipeline
