import AlphaG.Model.BankName
import AlphaG.Lemmas.Bytes
/-
Lemmas about the bank-name parsers (C08 names, C01 bank-name totality): a string that passes
the ASCII screening of `Adc16BankName` / `Adc32BankName` / `PadwingBankName` consists of exactly
four one-byte characters, so every later `&name[a..]` slice is on a character boundary; the
accepted strings are exactly `render n` for the denoted `n`. Core Lean only.
-/
namespace AlphaG.BankName
open AlphaG AlphaG.Generated

theorem utf8Len_ascii {c : Nat} (h : c < 128) : utf8Len c = 1 := by
  unfold utf8Len; rw [if_pos h]

theorem utf8Len_pos (c : Nat) : 1 ≤ utf8Len c := by
  unfold utf8Len; split <;> (try split) <;> (try split) <;> omega

theorem alnum_lt {c : Nat} (h : isAsciiAlnum c = true) : c < 128 := by
  simp only [isAsciiAlnum, isAsciiDigit, isAsciiUpper, isAsciiLower, Bool.or_eq_true,
    decide_eq_true_eq] at h
  omega

theorem digit_lt {c : Nat} (h : isAsciiDigit c = true) : c < 128 := by
  simp only [isAsciiDigit, decide_eq_true_eq] at h
  omega

/-- A string of ASCII characters has as many bytes as characters. -/
theorem byteLen_ascii (cs : List Nat) (h : ∀ c, c ∈ cs → c < 128) : byteLen cs = cs.length := by
  induction cs with
  | nil => rfl
  | cons c cs ih =>
    simp only [byteLen, List.length_cons]
    rw [utf8Len_ascii (h c List.mem_cons_self), ih (fun x hx => h x (List.mem_cons_of_mem _ hx))]
    omega

theorem length_four {α : Type} (l : List α) (h : l.length = 4) : ∃ a b c d, l = [a, b, c, d] := by
  match l, h with
  | [a, b, c, d], _ => exact ⟨a, b, c, d, rfl⟩

theorem length_two {α : Type} (l : List α) (h : l.length = 2) : ∃ a b, l = [a, b] := by
  match l, h with
  | [a, b], _ => exact ⟨a, b, rfl⟩

/-- Four bytes of ASCII alphanumerics are four characters. -/
theorem four_alnum (cs : List Nat) (hl : byteLen cs = 4) (ha : cs.all isAsciiAlnum = true) :
    ∃ a b c d, cs = [a, b, c, d] ∧ isAsciiAlnum a = true ∧ isAsciiAlnum b = true
      ∧ isAsciiAlnum c = true ∧ isAsciiAlnum d = true := by
  rw [List.all_eq_true] at ha
  rw [byteLen_ascii cs (fun c hc => alnum_lt (ha c hc))] at hl
  obtain ⟨a, b, c, d, rfl⟩ := length_four cs hl
  exact ⟨a, b, c, d, rfl, ha a (by simp), ha b (by simp), ha c (by simp), ha d (by simp)⟩

theorem lookupIdx_some (ns : List (List Nat)) (x : List Nat) (i : Nat)
    (h : lookupIdx ns x = some i) : ns[i]? = some x := by
  induction ns generalizing i with
  | nil => simp [lookupIdx] at h
  | cons n ns ih =>
    simp only [lookupIdx] at h
    split at h
    · simp only [Option.some.injEq] at h; subst h; subst_vars; rfl
    · cases hx : lookupIdx ns x with
      | none => rw [hx] at h; simp at h
      | some j =>
        rw [hx] at h
        simp only [Option.map_some, Option.some.injEq] at h
        subst h
        simpa using ih j hx

theorem lookupIdx_lt (ns : List (List Nat)) (x : List Nat) (i : Nat)
    (h : lookupIdx ns x = some i) : i < ns.length := by
  have := lookupIdx_some ns x i h
  exact (List.getElem?_eq_some_iff.1 this).1

/-- The slices of a 4-character ASCII name are what they look like. -/
theorem slices_four (a b c d : Nat) (ha : a < 128) (hb : b < 128) (hc : c < 128) :
    sliceFrom [a, b, c, d] 1 = some [b, c, d] ∧ sliceTo [b, c, d] 2 = some [b, c]
      ∧ sliceFrom [a, b, c, d] 3 = some [d] ∧ sliceFrom [a, b, c, d] 2 = some [c, d] := by
  simp [sliceFrom, sliceTo, utf8Len_ascii ha, utf8Len_ascii hb, utf8Len_ascii hc]

/-- Digit value ↦ its (upper-case) character. -/
def digitCode (v : Nat) : Nat := if v < 10 then 48 + v else 55 + v

theorem toDigit_upper (d radix t : Nat) (h1 : isAsciiAlnum d = true) (h2 : isAsciiLower d = false)
    (h : toDigit d radix = some t) : t < radix ∧ d = digitCode t := by
  simp only [isAsciiAlnum, isAsciiDigit, isAsciiUpper, isAsciiLower, Bool.or_eq_true,
    decide_eq_true_eq, decide_eq_false_iff_not] at h1 h2
  unfold digitCode
  unfold toDigit at h
  by_cases c1 : 48 ≤ d ∧ d ≤ 57
  · rw [if_pos c1] at h
    by_cases c2 : d - 48 < radix
    · rw [if_pos c2, Option.some.injEq] at h; subst h
      exact ⟨c2, by rw [if_pos (by omega)]; omega⟩
    · rw [if_neg c2] at h; cases h
  · rw [if_neg c1] at h
    by_cases c3 : radix ≤ 10
    · rw [if_pos c3] at h; cases h
    · rw [if_neg c3, if_pos (by omega)] at h
      by_cases c4 : d - 55 < radix
      · rw [if_pos c4, Option.some.injEq] at h; subst h
        exact ⟨c4, by rw [if_neg (by omega)]; omega⟩
      · rw [if_neg c4] at h; cases h

theorem fromStrRadix_one (d radix : Nat) (hne : ¬ (d = 43 ∨ d = 45)) :
    fromStrRadixU8 [d] radix =
      match toDigit d radix with
      | none => none
      | some t => if t ≤ 255 then some t else none := by
  simp only [fromStrRadixU8, hne, if_false, digitsValue]
  cases toDigit d radix with
  | none => rfl
  | some t => simp

/-- `from_str_radix` on one screened character (alphanumeric, not lower case). -/
theorem radix_one (d radix v : Nat) (h1 : isAsciiAlnum d = true)
    (h2 : isAsciiLower d = false) (h : fromStrRadixU8 [d] radix = some v) :
    v < radix ∧ d = digitCode v := by
  have hne : ¬ (d = 43 ∨ d = 45) := by
    simp only [isAsciiAlnum, isAsciiDigit, isAsciiUpper, isAsciiLower, Bool.or_eq_true,
      decide_eq_true_eq] at h1
    omega
  rw [fromStrRadix_one d radix hne] at h
  cases ht : toDigit d radix with
  | none => rw [ht] at h; cases h
  | some t =>
    rw [ht] at h
    simp only at h
    split at h
    · simp only [Option.some.injEq] at h; subst h
      exact toDigit_upper d radix t h1 h2 ht
    · cases h

theorem radix_one_conv (v radix : Nat) (hr : radix ≤ 36) (hv : v < radix) :
    fromStrRadixU8 [digitCode v] radix = some v ∧ isAsciiAlnum (digitCode v) = true
      ∧ isAsciiLower (digitCode v) = false := by
  have hne : ¬ (digitCode v = 43 ∨ digitCode v = 45) := by unfold digitCode; split <;> omega
  rw [fromStrRadix_one _ _ hne]
  unfold digitCode
  by_cases h : v < 10
  · rw [if_pos h]
    refine ⟨?_, ?_, ?_⟩
    · unfold toDigit
      rw [if_pos (by omega), if_pos (by omega)]
      simp only
      rw [if_pos (by omega)]
      congr 1; omega
    · simp only [isAsciiAlnum, isAsciiDigit, Bool.or_eq_true, decide_eq_true_eq]; omega
    · simp only [isAsciiLower, decide_eq_false_iff_not]; omega
  · rw [if_neg h]
    refine ⟨?_, ?_, ?_⟩
    · unfold toDigit
      rw [if_neg (by omega), if_neg (by omega), if_pos (by omega), if_pos (by omega)]
      simp only
      rw [if_pos (by omega)]
      congr 1; omega
    · simp only [isAsciiAlnum, isAsciiDigit, isAsciiUpper, Bool.or_eq_true, decide_eq_true_eq]; omega
    · simp only [isAsciiLower, decide_eq_false_iff_not]; omega


/-- What an accepted Adc16/Adc32 name looks like (constants as generated: length 4, board at
`[1..][..2]`, channel at `[3..]`). -/
theorem adcName_ok (pre radix chmax : Nat) (cs : List Nat) (p : Nat × Nat)
    (h : adcName pre 4 1 2 3 radix chmax cs = .ok p) :
    ∃ x y d, cs = [pre, x, y, d] ∧ lookupIdx a16Codes [x, y] = some p.1
      ∧ p.2 < radix ∧ d = digitCode p.2 ∧ p.2 ≤ chmax := by
  unfold adcName at h
  by_cases hs : cs.head? ≠ some pre ∨ byteLen cs ≠ 4 ∨ cs.all isAsciiAlnum = false
      ∨ cs.any isAsciiLower = true
  · rw [if_pos hs] at h; cases h
  · rw [if_neg hs] at h
    simp only [not_or, ne_eq, Decidable.not_not, Bool.not_eq_false, Bool.not_eq_true] at hs
    obtain ⟨h0, hl, ha, hlow⟩ := hs
    obtain ⟨a, x, y, d, rfl, aa, ax, ay, ad⟩ := four_alnum cs hl ha
    simp only [List.head?_cons, Option.some.injEq] at h0
    subst h0
    obtain ⟨s1, s2, s3, _⟩ := slices_four a x y d (alnum_lt aa) (alnum_lt ax) (alnum_lt ay)
    have hd : isAsciiLower d = false := by
      simp only [List.any_cons, Bool.or_eq_false_iff] at hlow
      exact hlow.2.2.2.1
    simp only [need_eq_ok, ite_err_eq_ok, ok_eq_ok, boardSlice, s1, s2, s3, Option.getD_some,
      Option.isSome_some, decide_eq_true_eq] at h
    obtain ⟨-, -, hb, -, -, hc, hmax, rfl⟩ := h
    cases hx : lookupIdx a16Codes [x, y] with
    | none => rw [hx] at hb; simp at hb
    | some i =>
      cases hv : fromStrRadixU8 [d] radix with
      | none => rw [hv] at hc; simp at hc
      | some v =>
        obtain ⟨v1, v2⟩ := radix_one d radix v ad hd hv
        rw [hv] at hmax
        simp only [Option.getD_some] at hmax ⊢
        exact ⟨x, y, d, rfl, hx, v1, v2, hmax⟩

/-- Totality of the Adc16/Adc32 parser: after the screening every slice is on a boundary and the
channel fits (`radix ≤ chmax + 1`). -/
theorem adcName_noPanic (pre radix chmax : Nat) (hr1 : 2 ≤ radix) (hr2 : radix ≤ 36)
    (hch : radix ≤ chmax + 1) (cs : List Nat) : NoPanic (adcName pre 4 1 2 3 radix chmax cs) := by
  unfold adcName
  apply noPanic_ite_err; intro hs
  simp only [not_or, ne_eq, Decidable.not_not, Bool.not_eq_false, Bool.not_eq_true] at hs
  obtain ⟨h0, hl, ha, hlow⟩ := hs
  obtain ⟨a, x, y, d, rfl, aa, ax, ay, ad⟩ := four_alnum cs hl ha
  obtain ⟨s1, s2, s3, _⟩ := slices_four a x y d (alnum_lt aa) (alnum_lt ax) (alnum_lt ay)
  have hd : isAsciiLower d = false := by
    simp only [List.any_cons, Bool.or_eq_false_iff] at hlow
    exact hlow.2.2.2.1
  simp only [boardSlice, s1, s2, s3, Option.getD_some, Option.isSome_some]
  apply noPanic_need rfl
  apply noPanic_need rfl
  apply noPanic_ite_err; intro _
  apply noPanic_need rfl
  apply noPanic_need (by simp only [decide_eq_true_eq]; omega)
  apply noPanic_ite_err; intro hc
  cases hv : fromStrRadixU8 [d] radix with
  | none => rw [hv] at hc; simp at hc
  | some v =>
    obtain ⟨v1, _⟩ := radix_one d radix v ad hd hv
    apply noPanic_need (by simp only [Option.getD_some, decide_eq_true_eq]; omega)
    exact noPanic_ok _


theorem sliceFrom_zero (cs : List Nat) : sliceFrom cs 0 = some cs := by
  cases cs <;> simp [sliceFrom]

theorem padwing_consts : codes padwingPrefix = [80, 67] ∧ padwingLen = 4 ∧ padwingDigitsFrom = 2
    ∧ padwingBoardFrom = 2 := by decide

/-- Shape of a string that passes the first two screens of `PadwingBankName`. -/
theorem padwing_screen (cs : List Nat) (h1 : (codes padwingPrefix).isPrefixOf cs = true)
    (h2 : byteLen cs = padwingLen) :
    ∃ rest, cs = 80 :: 67 :: rest ∧ byteLen rest = 2 ∧ sliceFrom cs 2 = some rest := by
  obtain ⟨e1, e2, _, _⟩ := padwing_consts
  rw [e1, List.isPrefixOf_iff_prefix] at h1
  obtain ⟨rest, rfl⟩ := h1
  rw [e2] at h2
  have u1 : utf8Len 80 = 1 := rfl
  have u2 : utf8Len 67 = 1 := rfl
  refine ⟨rest, rfl, ?_, ?_⟩
  · simp only [List.cons_append, List.nil_append, byteLen, u1, u2] at h2; omega
  · simp [sliceFrom, u1, u2, sliceFrom_zero]

theorem padwingName_ok (cs : List Nat) (b : Nat) (h : padwingName cs = .ok b) :
    ∃ x y, cs = [80, 67, x, y] ∧ lookupIdx pwbCodes [x, y] = some b := by
  unfold padwingName at h
  by_cases hs : (codes padwingPrefix).isPrefixOf cs = false ∨ byteLen cs ≠ padwingLen
  · rw [if_pos hs] at h; cases h
  · rw [if_neg hs] at h
    simp only [not_or, ne_eq, Decidable.not_not, Bool.not_eq_false] at hs
    obtain ⟨rest, rfl, hl, hsl⟩ := padwing_screen cs hs.1 hs.2
    obtain ⟨_, _, e3, e4⟩ := padwing_consts
    rw [e3, e4] at h
    simp only [need_eq_ok, ite_err_eq_ok, ok_eq_ok, hsl, Option.getD_some, Option.isSome_some,
      Bool.not_eq_false] at h
    obtain ⟨-, hd, -, hb, rfl⟩ := h
    rw [List.all_eq_true] at hd
    rw [byteLen_ascii rest (fun c hc => digit_lt (hd c hc))] at hl
    obtain ⟨x, y, rfl⟩ := length_two rest hl
    cases hx : lookupIdx pwbCodes [x, y] with
    | none => rw [hx] at hb; simp at hb
    | some i => exact ⟨x, y, rfl, by simp [hx]⟩

theorem padwingName_noPanic (cs : List Nat) : NoPanic (padwingName cs) := by
  unfold padwingName
  apply noPanic_ite_err; intro hs
  simp only [not_or, ne_eq, Decidable.not_not, Bool.not_eq_false] at hs
  obtain ⟨rest, rfl, hl, hsl⟩ := padwing_screen cs hs.1 hs.2
  obtain ⟨_, _, e3, e4⟩ := padwing_consts
  rw [e3, e4]
  simp only [hsl, Option.isSome_some]
  apply noPanic_need rfl
  apply noPanic_ite_err; intro _
  apply noPanic_need rfl
  apply noPanic_ite_err; intro _
  exact noPanic_ok _

theorem literalName_ok (lit : String) (cs : List Nat) (u : Unit) :
    literalName lit cs = .ok u ↔ cs = codes lit := by
  unfold literalName
  by_cases h : cs = codes lit
  · simp [h]
  · simp [h]

theorem literalName_noPanic (lit : String) (cs : List Nat) : NoPanic (literalName lit cs) := by
  unfold literalName
  apply noPanic_ite_err; intro _; exact noPanic_ok _

theorem mapOut_ok {ε ε' α β : Type} (fe : ε → ε') (fa : α → β) (x : Outcome ε α) (b : β) :
    mapOut fe fa x = .ok b ↔ ∃ a, x = .ok a ∧ fa a = b := by
  cases x with
  | ok a => simp [mapOut]
  | err e => simp [mapOut]
  | panic s => simp [mapOut]

theorem mapOut_noPanic {ε ε' α β : Type} (fe : ε → ε') (fa : α → β) (x : Outcome ε α)
    (h : NoPanic x) : NoPanic (mapOut fe fa x) := by
  cases x with
  | ok a => exact noPanic_ok _
  | err e => exact noPanic_err _
  | panic s => exact absurd rfl (h s)

end AlphaG.BankName
