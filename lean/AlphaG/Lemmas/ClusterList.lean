import AlphaG.Model.Cluster
/-
List-level lemmas for the clustering model: multiplicity modulo `eq` (`cnt`), `position`,
`swap_remove`, `max_by_key`. Core Lean only.
-/
namespace AlphaG.Cluster

/-- Hypotheses on the three float-valued ingredients. `eq` (`SpacePoint ==`) is an equivalence
(true for NaN-free points) and `get_bins` respects it; a point does not vote twice for one
bin. `near` is only required to be symmetric, and only for connectedness. -/
structure Ctx.Good (ctx : Ctx) : Prop where
  eq_refl : ∀ a, ctx.eq a a = true
  eq_symm : ∀ a b, ctx.eq a b = true → ctx.eq b a = true
  eq_trans : ∀ a b c, ctx.eq a b = true → ctx.eq b c = true → ctx.eq a c = true
  bins_nodup : ∀ a, (ctx.bins a).Nodup
  bins_eq : ∀ a b, ctx.eq a b = true → ∀ k, k ∈ ctx.bins a ↔ k ∈ ctx.bins b

/-- Multiplicity of the `==`-class of `x` in `l`. -/
def cnt (ctx : Ctx) (x : Nat) (l : List Nat) : Nat := l.countP (fun q => ctx.eq x q)

/-- `1` if `x == p` else `0`. -/
def ind (ctx : Ctx) (x p : Nat) : Nat := if ctx.eq x p = true then 1 else 0

@[simp] theorem cnt_nil (ctx : Ctx) (x : Nat) : cnt ctx x [] = 0 := rfl

theorem cnt_cons (ctx : Ctx) (x p : Nat) (l : List Nat) :
    cnt ctx x (p :: l) = cnt ctx x l + ind ctx x p := by
  simp [cnt, ind, List.countP_cons]

theorem cnt_append (ctx : Ctx) (x : Nat) (l₁ l₂ : List Nat) :
    cnt ctx x (l₁ ++ l₂) = cnt ctx x l₁ + cnt ctx x l₂ := by
  simp [cnt, List.countP_append]

theorem cnt_perm (ctx : Ctx) (x : Nat) {l₁ l₂ : List Nat} (h : l₁.Perm l₂) :
    cnt ctx x l₁ = cnt ctx x l₂ := h.countP_eq _

theorem cnt_self_pos {ctx : Ctx} (g : ctx.Good) {p : Nat} {l : List Nat} (h : p ∈ l) :
    0 < cnt ctx p l := by
  unfold cnt
  exact List.countP_pos_iff.2 ⟨p, h, g.eq_refl p⟩

theorem ind_congr {ctx : Ctx} (g : ctx.Good) {q p : Nat} (h : ctx.eq q p = true) (x : Nat) :
    ind ctx x q = ind ctx x p := by
  unfold ind
  by_cases h1 : ctx.eq x q = true
  · simp [h1, g.eq_trans x q p h1 h]
  · have : ¬ ctx.eq x p = true := fun h2 => h1 (g.eq_trans x p q h2 (g.eq_symm q p h))
    simp [h1, this]

theorem cnt_flatten_le (ctx : Ctx) (x : Nat) {c : List Nat} {L : List (List Nat)} (h : c ∈ L) :
    cnt ctx x c ≤ cnt ctx x L.flatten := by
  induction L with
  | nil => cases h
  | cons a L ih =>
    rw [List.flatten_cons, cnt_append]
    rcases List.mem_cons.1 h with rfl | h'
    · omega
    · have := ih h'; omega

/-! ### `position` -/

theorem position_some {f : Nat → Bool} {l : List Nat} {i : Nat} (h : position f l = some i) :
    ∃ hi : i < l.length, f l[i] = true := by
  induction l generalizing i with
  | nil => simp [position] at h
  | cons a l ih =>
    unfold position at h
    by_cases hf : f a = true
    · simp only [hf, if_true, Option.some.injEq] at h
      subst h
      exact ⟨by simp, by simpa using hf⟩
    · simp only [hf, Bool.false_eq_true, if_false, Option.map_eq_some_iff] at h
      obtain ⟨j, hj, rfl⟩ := h
      obtain ⟨hj', hfj⟩ := ih hj
      exact ⟨by simp; omega, by simpa using hfj⟩

theorem position_none {f : Nat → Bool} {l : List Nat} (h : position f l = none) :
    ∀ a ∈ l, f a = false := by
  induction l with
  | nil => intro a ha; cases ha
  | cons b l ih =>
    unfold position at h
    by_cases hf : f b = true
    · simp [hf] at h
    · simp only [hf, Bool.false_eq_true, if_false, Option.map_eq_none_iff] at h
      intro a ha
      rcases List.mem_cons.1 ha with rfl | ha'
      · simpa using hf
      · exact ih h a ha'

/-! ### `swap_remove` -/

theorem swapRemove_perm {l : List Nat} {i : Nat} (hi : i < l.length) :
    (l[i] :: swapRemove l i).Perm l := by
  have hsplit : l = l.take i ++ l[i] :: l.drop (i + 1) := by
    conv => lhs; rw [← List.take_append_drop i l]
    rw [List.drop_eq_getElem_cons hi]
  unfold swapRemove
  by_cases h1 : i + 1 < l.length
  · simp only [h1, if_true]
    have hne : l.drop (i + 1) ≠ [] := by
      intro h0
      have := congrArg List.length h0
      simp at this; omega
    have hlast : l.getLastD 0 = (l.drop (i + 1)).getLast hne := by
      have hl : l ≠ [] := by intro h0; subst h0; simp at hi
      rw [List.getLastD_eq_getLast?, List.getLast?_eq_some_getLast hl, Option.getD_some,
        List.getLast_drop]
    have hd : l.drop (i + 1) = (l.drop (i + 1)).dropLast ++ [l.getLastD 0] := by
      rw [hlast, List.dropLast_concat_getLast]
    conv => rhs; rw [hsplit, hd]
    refine (List.Perm.trans ?_ List.perm_middle.symm)
    refine List.Perm.cons _ ?_
    refine List.Perm.append_left _ ?_
    exact (List.perm_append_singleton _ _).symm
  · simp only [h1, if_false]
    have hd : l.drop (i + 1) = [] := List.drop_eq_nil_of_le (by omega)
    conv => rhs; rw [hsplit, hd]
    exact (List.perm_append_singleton _ _).symm

theorem swapRemove_length {l : List Nat} {i : Nat} (hi : i < l.length) :
    (swapRemove l i).length + 1 = l.length := by
  have := (swapRemove_perm hi).length_eq
  simpa using this

theorem swapRemove_subset {l : List Nat} {i : Nat} (hi : i < l.length) {a : Nat}
    (h : a ∈ swapRemove l i) : a ∈ l :=
  (swapRemove_perm hi).subset (List.mem_cons_of_mem _ h)

/-- `position(|q| q == p)` followed by `swap_remove`: one member of the class of `p` leaves. -/
theorem cnt_swapRemove_position {ctx : Ctx} (g : ctx.Good) {l : List Nat} {p i : Nat}
    (h : position (fun q => ctx.eq q p) l = some i) (x : Nat) :
    cnt ctx x (swapRemove l i) + ind ctx x p = cnt ctx x l := by
  obtain ⟨hi, hq⟩ := position_some h
  rw [← cnt_perm ctx x (swapRemove_perm hi), cnt_cons, ind_congr g hq x]

theorem position_ne_none {ctx : Ctx} (g : ctx.Good) {l : List Nat} {p : Nat}
    (h : 0 < cnt ctx p l) : position (fun q => ctx.eq q p) l ≠ none := by
  intro h0
  obtain ⟨a, ha, hpa⟩ := List.countP_pos_iff.1 h
  have := position_none h0 a ha
  simp [g.eq_symm p a hpa] at this

/-! ### size from multiplicities -/

theorem length_le_of_cnt_le {ctx : Ctx} (g : ctx.Good) :
    ∀ (l l' : List Nat), (∀ x, cnt ctx x l ≤ cnt ctx x l') → l.length ≤ l'.length := by
  intro l
  induction l with
  | nil => intro l' _; simp
  | cons a t ih =>
    intro l' h
    have h1 : 0 < cnt ctx a l' := by
      have := h a
      rw [cnt_cons] at this
      have : ind ctx a a = 1 := by simp [ind, g.eq_refl]
      omega
    obtain ⟨a', ha', haa'⟩ := List.countP_pos_iff.1 h1
    have hp : l'.Perm (a' :: l'.erase a') := List.perm_cons_erase ha'
    have h2 : ∀ x, cnt ctx x t ≤ cnt ctx x (l'.erase a') := by
      intro x
      have := h x
      rw [cnt_cons, cnt_perm ctx x hp, cnt_cons, ind_congr g haa' x] at this
      omega
    have := ih _ h2
    have hl := hp.length_eq
    simp only [List.length_cons] at hl ⊢
    omega

/-! ### `max_by_key` -/

theorem foldl_max_mem {α : Type} (key : α → Nat) (l : List α) (a : α) :
    l.foldl (fun best x => if key best ≤ key x then x else best) a ∈ a :: l := by
  induction l generalizing a with
  | nil => simp
  | cons b l ih =>
    simp only [List.foldl_cons]
    have := ih (if key a ≤ key b then b else a)
    by_cases h : key a ≤ key b
    · simp only [h, if_true] at this ⊢
      exact List.mem_cons_of_mem _ this
    · simp only [h, if_false] at this ⊢
      rcases List.mem_cons.1 this with h' | h'
      · rw [h']; exact List.mem_cons_self
      · exact List.mem_cons_of_mem _ (List.mem_cons_of_mem _ h')

theorem lastMaxBy_mem {α : Type} {key : α → Nat} {l : List α} {a : α}
    (h : lastMaxBy key l = some a) : a ∈ l := by
  cases l with
  | nil => simp [lastMaxBy] at h
  | cons b l =>
    simp only [lastMaxBy, Option.some.injEq] at h
    rw [← h]; exact foldl_max_mem key l b

theorem lastMaxBy_none {α : Type} {key : α → Nat} {l : List α}
    (h : lastMaxBy key l = none) : l = [] := by
  cases l with
  | nil => rfl
  | cons b l => simp [lastMaxBy] at h

end AlphaG.Cluster
