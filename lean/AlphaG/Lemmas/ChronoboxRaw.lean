import AlphaG.Model.Chronobox
import AlphaG.Lemmas.Chronobox
/-
The combinator-level transcription `Raw.chronoboxFifo` (winnow semantics: backtracking,
checkpoints, the "parsers must always consume" assertions, the final `unwrap`) computes exactly
the direct recursion `parse`; in particular it never reaches the `unwrap` panic nor an assertion.
Core Lean only.
-/
namespace AlphaG.Chronobox.Raw
open AlphaG AlphaG.Chronobox

theorem leAt3 (b0 b1 b2 : UInt8) (rest : List UInt8) :
    leAt (b0 :: b1 :: b2 :: rest) 0 3 = u24 b0 b1 b2 := by
  simp [leAt, byteAt, u24]; omega

theorem channelId_eq (n : Nat) :
    channelId n = if n < numInputChannels then .ok n else .err () := by
  simp [channelId, need, numInputChannels]

/-- `fifo_entry` with four bytes available is the classification of that word. -/
theorem fifoEntry_cons (b0 b1 b2 b3 : UInt8) (rest : List UInt8) :
    fifoEntry (b0 :: b1 :: b2 :: b3 :: rest)
      = match (classify b0 b1 b2 b3).entry? with
        | some e => .ok e 4
        | none => .backtrack := by
  have hts : timestampCounter (b0 :: b1 :: b2 :: b3 :: rest)
      = if b3.toNat &&& 0x80 = 0x80 ∧ b3.toNat &&& 0x7F < numInputChannels then
          .ok (.ts (b3.toNat &&& 0x7F) (decide (u24 b0 b1 b2 &&& 1 = 1))
            (u24 b0 b1 b2 &&& 0x00FFFFFE)) 4
        else .backtrack := by
    simp only [timestampCounter, andThen, leUint, map, take, tryMap, verify, anyU8, channelId_eq,
      List.length_cons, List.take_succ_cons, List.take_zero]
    simp only [show 3 ≤ rest.length + 1 + 1 + 1 + 1 from by omega, if_true, byteAt, leAt3]
    by_cases c1 : b3.toNat &&& 0x80 = 0x80
    · by_cases c2 : b3.toNat &&& 0x7F < numInputChannels
      · simp [c1, c2]
      · simp [c1, c2]
    · simp [c1]
  have hmk : wrapAroundMarker (b0 :: b1 :: b2 :: b3 :: rest)
      = if b3.toNat = 0xFF then
          .ok (.marker (decide (u24 b0 b1 b2 &&& 0x00800000 = 0x00800000))
            (u24 b0 b1 b2 &&& 0x007FFFFF)) 4
        else .backtrack := by
    simp only [wrapAroundMarker, andThen, leUint, map, take, byteLit,
      List.length_cons, List.take_succ_cons, List.take_zero]
    simp only [show 3 ≤ rest.length + 1 + 1 + 1 + 1 from by omega, if_true, leAt3]
    by_cases c : b3.toNat = 0xFF
    · simp [c]
    · simp [c]
  unfold fifoEntry alt classify
  rw [hts, hmk]
  by_cases c1 : b3.toNat &&& 0x80 = 0x80 ∧ b3.toNat &&& 0x7F < numInputChannels
  · simp only [if_pos c1, Word.entry?]
  · by_cases c2 : b3.toNat = 0xFF
    · simp only [if_neg c1, if_pos c2, Word.entry?]
    · simp only [if_neg c1, if_neg c2, Word.entry?]

/-- With fewer than four bytes `fifo_entry` backtracks (`le_u24` or the top byte is missing). -/
theorem fifoEntry_short {l : List UInt8} (h : l.length < 4) : fifoEntry l = .backtrack := by
  match l, h with
  | [], _ => simp [fifoEntry, alt, timestampCounter, wrapAroundMarker, andThen, leUint, map, take]
  | [_], _ => simp [fifoEntry, alt, timestampCounter, wrapAroundMarker, andThen, leUint, map, take]
  | [_, _], _ =>
    simp [fifoEntry, alt, timestampCounter, wrapAroundMarker, andThen, leUint, map, take]
  | [_, _, _], _ =>
    simp [fifoEntry, alt, timestampCounter, wrapAroundMarker, andThen, leUint, map, take, tryMap,
      verify, anyU8, byteLit]
  | _ :: _ :: _ :: _ :: _, h => simp at h; omega

/-- `repeat(0.., fifo_entry)` never fails, never trips its assertion, and is `entries`. -/
theorem repeat0_fifoEntry (l : List UInt8) :
    ∃ n, repeat0 fifoEntry l = .ok (entries l).1 n ∧ l.drop n = (entries l).2 := by
  fun_induction entries l with
  | case1 b0 b1 b2 b3 rest ch e t h ih =>
    obtain ⟨m, hm, hd⟩ := ih
    refine ⟨4 + m, ?_, by rw [Nat.add_comm]; exact hd⟩
    rw [repeat0, fifoEntry_cons, h]
    simp [Word.entry?, hm]
    omega
  | case2 b0 b1 b2 b3 rest top c h ih =>
    obtain ⟨m, hm, hd⟩ := ih
    refine ⟨4 + m, ?_, by rw [Nat.add_comm]; exact hd⟩
    rw [repeat0, fifoEntry_cons, h]
    simp [Word.entry?, hm]
    omega
  | case3 b0 b1 b2 b3 rest h =>
    refine ⟨0, ?_, rfl⟩
    rw [repeat0, fifoEntry_cons, h]
    simp [Word.entry?]
  | case4 l h =>
    refine ⟨0, ?_, rfl⟩
    have hl : l.length < 4 := by
      match l, h with
      | [], _ => simp
      | [_], _ => simp
      | [_, _], _ => simp
      | [_, _, _], _ => simp
      | b0 :: b1 :: b2 :: b3 :: rest, h => exact absurd rfl (h b0 b1 b2 b3 rest)
    rw [repeat0, fifoEntry_short hl]

/-- `scalers_block` is `block?` and consumes exactly 244 bytes. -/
theorem scalersBlock_eq (l : List UInt8) :
    (∃ r, block? l = some r ∧ scalersBlock l = .ok () 244 ∧ l.drop 244 = r)
      ∨ (block? l = none ∧ scalersBlock l = .backtrack) := by
  unfold block?
  split
  · rename_i rest
    by_cases hlen : blockPayload ≤ rest.length
    · left
      have h240 : 240 ≤ rest.length := by simpa [blockPayload, numInputChannels] using hlen
      refine ⟨rest.drop blockPayload, by simp [hlen], ?_, by simp [blockPayload, numInputChannels]⟩
      simp only [scalersBlock, andThen, literal, take, leUint, map, numInputChannels,
        List.length_cons, List.length_nil, List.take_succ_cons, List.take_zero, if_true,
        List.drop_succ_cons, List.drop_zero, List.length_drop]
      simp only [show 59 * 4 ≤ rest.length from by omega, if_true,
        show 4 ≤ rest.length - 59 * 4 from by omega]
    · right
      refine ⟨by simp [hlen], ?_⟩
      have h240 : rest.length < 240 := by
        simp [blockPayload, numInputChannels] at hlen; omega
      simp only [scalersBlock, andThen, literal, take, leUint, map, numInputChannels,
        List.length_cons, List.length_nil, List.take_succ_cons, List.take_zero, if_true,
        List.drop_succ_cons, List.drop_zero, List.length_drop]
      by_cases h236 : 59 * 4 ≤ rest.length
      · simp only [h236, if_true, show ¬ 4 ≤ rest.length - 59 * 4 from by omega, if_false]
      · simp only [h236, if_false]
  · rename_i hne
    right
    refine ⟨rfl, ?_⟩
    have : ¬ l.take 4 = [0x3C, 0x00, 0x00, 0xFE] := by
      intro ht
      have := List.take_append_drop 4 l
      rw [ht] at this
      exact hne (l.drop 4) this.symm
    simp [scalersBlock, andThen, literal, this]

/-- What follows a run of entries: a complete block and the parse of the rest, or nothing. -/
def tailOf (r : List UInt8) : List Entry × List UInt8 :=
  match block? r with
  | some r' => parse r'
  | none => ([], r)

theorem parse_eq_tail (l : List UInt8) :
    parse l = ((entries l).1 ++ (tailOf (entries l).2).1, (tailOf (entries l).2).2) := by
  unfold tailOf
  cases h : block? (entries l).2 with
  | some r' => simp [parse_of_block h]
  | none => simp [parse_of_noblock h]

/-- The loop of `separated_foldl1` is `tailOf`, for every accumulator. -/
theorem sepLoop_spec (k : Nat) : ∀ (r : List UInt8) (ol : List Entry), r.length ≤ k →
    ∃ n, sepLoop (repeat0 fifoEntry) scalersBlock (fun l _ r => l ++ r) ol r
        = .ok (ol ++ (tailOf r).1) n ∧ r.drop n = (tailOf r).2 := by
  induction k with
  | zero =>
    intro r ol hk
    have : r = [] := List.eq_nil_of_length_eq_zero (by omega)
    subst this
    refine ⟨0, ?_, rfl⟩
    rw [sepLoop]
    rcases scalersBlock_eq [] with ⟨r', h1, -, -⟩ | ⟨h1, h2⟩
    · simp [block?] at h1
    · rw [h2]; simp [tailOf, h1]
  | succ k ih =>
    intro r ol hk
    rcases scalersBlock_eq r with ⟨r', h1, h2, h3⟩ | ⟨h1, h2⟩
    · have hlen := block?_length h1
      obtain ⟨m, hm, hdm⟩ := repeat0_fifoEntry r'
      have hle : (entries r').2.length ≤ k := by
        have := entries_rem_le r'
        omega
      obtain ⟨j, hj, hdj⟩ := ih (entries r').2 (ol ++ (entries r').1) hle
      refine ⟨244 + m + j, ?_, ?_⟩
      · rw [sepLoop, h2]
        have hne : ¬ r'.length = r.length := by omega
        simp only [h3, hne, dite_false, hm, hdm, hj]
        simp [tailOf, h1, parse_eq_tail r', List.append_assoc]
      · rw [← List.drop_drop, ← List.drop_drop, h3, hdm, hdj]
        simp [tailOf, h1, parse_eq_tail r']
    · refine ⟨0, ?_, by simp [tailOf, h1]⟩
      rw [sepLoop, h2]; simp [tailOf, h1]

/-- The winnow-level model computes `parse`. -/
theorem fifo_eq (i : List UInt8) :
    ∃ n, fifo i = .ok (parse i).1 n ∧ i.drop n = (parse i).2 := by
  obtain ⟨n, hn, hdn⟩ := repeat0_fifoEntry i
  obtain ⟨j, hj, hdj⟩ := sepLoop_spec (entries i).2.length (entries i).2 (entries i).1 (Nat.le_refl _)
  refine ⟨n + j, ?_, ?_⟩
  · simp only [fifo, separatedFoldl1, andThen, hn, hdn, hj, parse_eq_tail i]
  · rw [← List.drop_drop, hdn, hdj, parse_eq_tail i]

/-- C01: the only `unwrap` of `chronobox_fifo` is on a parser that always succeeds, and the
"must always consume" assertions of `repeat`/`separated_foldl1` are unreachable: the call
returns `parse i`. -/
theorem chronoboxFifo_eq (i : List UInt8) : chronoboxFifo i = .ok (parse i) := by
  obtain ⟨n, hn, hd⟩ := fifo_eq i
  simp [chronoboxFifo, hn, hd]

end AlphaG.Chronobox.Raw
