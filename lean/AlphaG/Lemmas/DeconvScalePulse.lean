import AlphaG.Lemmas.DeconvScale
import AlphaG.Lemmas.DeconvPulse
/-
Non-vacuity of the field-level scaling statement `deconv_scale_field_first`: its hypotheses
(the first grid point's sum of squares is `< top`, for the signal and the scaled signal) hold for
the isolated pulse, and its conclusion agrees with `isolated_pulse` applied to the amplitude
`c · a` directly.
-/
namespace AlphaG.Deconv
open Lean Grind Std

section field
variable {F : Type} [Field F] [LE F] [LT F] [LawfulOrderLT F] [IsLinearOrder F] [OrderedRing F]
  [DecidableLT F] [DecidableLE F]

omit [LE F] [LT F] [LawfulOrderLT F] [IsLinearOrder F] [OrderedRing F] [DecidableLT F]
  [DecidableLE F] in
/-- Scaling the pulse scales its amplitude. -/
theorem pulse_scale (n k : Nat) (a c : F) (resp : List F) :
    (pulse n k a resp).map (c * ·) = pulse n k (c * a) resp := by
  simp only [pulse, List.map_map]
  apply List.map_congr_left
  intro j _
  simp only [Function.comp]
  split
  · cases resp[j - k]? with
    | none => simp only []; grind
    | some r => simp only []; grind
  · grind

/-- The hypotheses of `deconv_scale_field_first` hold for an isolated pulse, so scaling the pulse
by `c > 0` scales the recovered spike by `c` — in agreement with `isolated_pulse` at amplitude
`c · a`. -/
theorem isolated_pulse_scale (top : F) (htop : 0 < top) (n k : Nat) (a c : F) (resp : List F)
    (ha : 0 < a) (hc : 0 < c) (h13 : 13 ≤ resp.length) (hneg : ∀ r ∈ resp.take 13, r < 0)
    (hk : k + 3 ≤ n) :
    wireDeconv (fieldOps top) resp ((pulse n k a resp).map (c * ·))
      = .ok (((List.range n).map fun j => if j = k then a else 0).map (c * ·)) := by
  have hca : 0 < c * a := OrderedRing.mul_pos hc ha
  have key := deconv_scale_field_first top c hc true (pulse n k a resp) resp 0 1 3 12
    (by
      intro p hp res r inp hnn
      rw [grid_wire_head] at hp
      cases hp
      rw [isolated_pulse_partial top n k a resp ha h13 hneg hk] at hnn
      cases hnn
      exact htop)
    (by
      intro p hp res r inp hnn
      rw [grid_wire_head] at hp
      cases hp
      rw [pulse_scale, isolated_pulse_partial top n k (c * a) resp hca h13 hneg hk] at hnn
      cases hnn
      exact htop)
  have hw := isolated_pulse top htop n k a resp ha h13 hneg hk
  simp only [wireDeconv, lsDeconv] at hw ⊢
  rw [key, hw]
  rfl

end field

/-- Concrete instance over `Rat` (`c = 2`, the response of the `DeconvPulse` example). -/
example :
    wireDeconv (fieldOps (1000000 : Rat))
        [-1, -8, -20, -30, -31, -27, -21, -15, -10, -7, -5, -3, -2, 1, 2, 1]
        ((pulse 20 4 (3 : Rat)
          [-1, -8, -20, -30, -31, -27, -21, -15, -10, -7, -5, -3, -2, 1, 2, 1]).map (2 * ·))
      = .ok (((List.range 20).map fun j => if j = 4 then (3 : Rat) else 0).map (2 * ·)) :=
  isolated_pulse_scale 1000000 (by decide) 20 4 3 2 _ (by decide) (by decide) (by decide)
    (by decide) (by decide)

end AlphaG.Deconv
