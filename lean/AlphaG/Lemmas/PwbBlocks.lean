import AlphaG.Model.Pwb
import AlphaG.Lemmas.Bytes
import AlphaG.Lemmas.PwbMask
/-
Lemmas about the per-channel block loop of the PWB packet decoder, the 80-bit masks as
little-endian integers, and the `i16` view of the data section. Core Lean only.
-/
namespace AlphaG.Pwb

/-! ### Little-endian integers -/

theorem leAt_succ_last (b : List UInt8) : ∀ (k off : Nat),
    leAt b off (k + 1) = leAt b off k + 256 ^ k * byteAt b (off + k)
  | 0, off => by simp [leAt]
  | k + 1, off => by
    rw [leAt, leAt_succ_last b k (off + 1), leAt, Nat.pow_succ]
    rw [show off + 1 + k = off + (k + 1) by omega]
    rw [Nat.mul_add]; ac_rfl

theorem byte_and_128 (x : Nat) : x &&& 128 = (x / 2 ^ 7 % 2 ^ 1) * 2 ^ 7 := and_mask x 1 7

/-- Bit 79 of a 10-byte little-endian mask is the top bit of its last byte. -/
theorem mask_bit79 (b : List UInt8) (off : Nat) :
    byteAt b (off + 9) &&& 128 = 0 ↔ (leAt b off 10).testBit 79 = false := by
  have h1 := leAt_lt b off 9
  have h2 := byteAt_lt b (off + 9)
  rw [leAt_succ_last b 9 off, byte_and_128, Nat.testBit_eq_decide_div_mod_eq]
  simp only [decide_eq_false_iff_not]
  omega

theorem mask_lt_of_bit79 (b : List UInt8) (off : Nat) (h : (leAt b off 10).testBit 79 = false) :
    leAt b off 10 < 2 ^ 79 := by
  have h1 := leAt_lt b off 10
  rw [Nat.testBit_eq_decide_div_mod_eq] at h
  simp only [decide_eq_false_iff_not] at h
  omega

/-! ### `chansOf` -/

theorem chansOf_map_some : ∀ (idx : List Nat), (∀ i ∈ idx, i < 79) →
    (chansOf idx).map some = idx.map (fun i => readoutToChannel (i + 1))
  | [], _ => rfl
  | i :: idx, h => by
    obtain ⟨_, c, hc, _, _⟩ := readout_left_inv i (h i (List.mem_cons_self))
    have ih := chansOf_map_some idx (fun j hj => h j (List.mem_cons_of_mem _ hj))
    unfold chansOf at ih ⊢
    simp only [List.filterMap_cons, hc, List.map_cons, ih]

theorem chansOf_length (idx : List Nat) (h : ∀ i ∈ idx, i < 79) :
    (chansOf idx).length = idx.length := by
  have := congrArg List.length (chansOf_map_some idx h)
  simpa using this

theorem chansOf_getElem (idx : List Nat) (h : ∀ i ∈ idx, i < 79) (k : Nat)
    (hk : k < (chansOf idx).length) (hk' : k < idx.length) :
    readoutToChannel (idx[k] + 1) = some (chansOf idx)[k] := by
  have := chansOf_map_some idx h
  have h2 : ((chansOf idx).map some)[k]'(by simpa using hk) =
      (idx.map (fun i => readoutToChannel (i + 1)))[k]'(by simpa using hk') := by
    simp only [this]
  simpa using h2.symm

theorem all_idxOk (idx : List Nat) (h : ∀ i ∈ idx, i < 79) : idx.all idxOk = true := by
  rw [List.all_eq_true]
  intro i hi
  exact (readout_left_inv i (h i hi)).1

/-! ### The block loop -/

/-- What the loop body checks for sent channel `c` at enumeration index `k`. -/
def BlockOk (b : List UInt8) (req : Nat) (c : ChannelId) (k : Nat) : Prop :=
  52 + bpc req * k + 2 ≤ b.length
  ∧ readoutToChannel (leAt b (52 + bpc req * k) 2) = some c
  ∧ 52 + bpc req * k + 2 + 2 ≤ b.length
  ∧ leAt b (52 + bpc req * k + 2) 2 = req
  ∧ (req % 2 = 0 ∨ 52 + bpc req * k + 4 + 2 * req + 2 ≤ b.length)
  ∧ (req % 2 ≠ 0 → leAt b (52 + bpc req * k + 4 + 2 * req) 2 = 0)

def BlocksOk (b : List UInt8) (req : Nat) : List ChannelId → Nat → Prop
  | [], _ => True
  | c :: cs, k => BlockOk b req c k ∧ BlocksOk b req cs (k + 1)

theorem checkBlocks_eq_ok {α : Type} (b : List UInt8) (req : Nat) :
    ∀ (cs : List ChannelId) (k : Nat) (rest : Outcome Err α) (p : α),
      checkBlocks b req cs k rest = .ok p ↔ BlocksOk b req cs k ∧ rest = .ok p
  | [], k, rest, p => by simp [checkBlocks, BlocksOk]
  | c :: cs, k, rest, p => by
    simp only [checkBlocks, needBytes_eq_ok, need_eq_ok, ite_err_eq_ok,
      checkBlocks_eq_ok b req cs (k + 1) rest p, BlocksOk, BlockOk, readout_no_underflow,
      Bool.not_false, true_and, decide_eq_true_eq, ne_eq, Decidable.not_not, not_and]
    constructor
    · rintro ⟨h1, _, h3, h4, h5, h6, h7, h8, h9⟩
      exact ⟨⟨⟨h1, h3, h4, h5, h6, h7⟩, h8⟩, h9⟩
    · rintro ⟨⟨⟨h1, h3, h4, h5, h6, h7⟩, h8⟩, h9⟩
      exact ⟨h1, by rw [h3]; simp, h3, h4, h5, h6, h7, h8, h9⟩

theorem bpc_ge (req : Nat) : 4 + 2 * req ≤ bpc req ∧ (req % 2 ≠ 0 → 4 + 2 * req + 2 ≤ bpc req) := by
  unfold bpc; split <;> omega

theorem noPanic_checkBlocks {α : Type} (b : List UInt8) (req : Nat) :
    ∀ (cs : List ChannelId) (k : Nat) (rest : Outcome Err α),
      52 + bpc req * (k + cs.length) ≤ b.length → NoPanic rest →
      NoPanic (checkBlocks b req cs k rest)
  | [], _, _, _, hr => hr
  | c :: cs, k, rest, hlen, hr => by
    have hb := bpc_ge req
    have hm : bpc req * (k + 1) ≤ bpc req * (k + (c :: cs).length) :=
      Nat.mul_le_mul_left _ (by simp)
    rw [Nat.mul_succ] at hm
    unfold checkBlocks
    apply noPanic_needBytes (by omega)
    apply noPanic_need (by rw [readout_no_underflow]; rfl)
    apply noPanic_ite_err; intro _
    apply noPanic_ite_err; intro _
    apply noPanic_needBytes (by omega)
    apply noPanic_ite_err; intro _
    apply noPanic_need (by
      simp only [decide_eq_true_eq]
      by_cases ho : req % 2 = 0
      · exact Or.inl ho
      · have := hb.2 ho; right; omega)
    apply noPanic_ite_err; intro _
    apply noPanic_checkBlocks b req cs (k + 1) rest _ hr
    rw [show k + 1 + cs.length = k + (c :: cs).length by simp; omega]
    exact hlen

/-- Indexed form of `BlocksOk`. -/
theorem blocksOk_iff (b : List UInt8) (req : Nat) : ∀ (cs : List ChannelId) (k : Nat),
    BlocksOk b req cs k ↔ ∀ j (hj : j < cs.length), BlockOk b req cs[j] (k + j)
  | [], k => by simp [BlocksOk]
  | c :: cs, k => by
    rw [BlocksOk, blocksOk_iff b req cs (k + 1)]
    constructor
    · rintro ⟨h0, hs⟩ j hj
      cases j with
      | zero => simpa using h0
      | succ j =>
        have := hs j (by simpa using hj)
        rw [show k + 1 + j = k + (j + 1) by omega] at this
        simpa using this
    · intro h
      refine ⟨by have := h 0 (by simp); simpa using this, ?_⟩
      intro j hj
      have := h (j + 1) (by simpa using hj)
      rw [show k + (j + 1) = k + 1 + j by omega] at this
      simpa using this

end AlphaG.Pwb
