import AlphaG.Model.Adc
import AlphaG.Lemmas.Bytes
/-
Lemmas for the ADC packet model (C02 / C01): extra peeling lemmas for guard chains with a
two-sided `if` and with a panic guard inside an error branch, sample decoding, the `i32`
baseline sum, floor division, two's complement round trips. Core Lean only.
-/
namespace AlphaG

/-! ### Peeling lemmas -/

theorem ite_eq_ok {ε α : Type} {c : Prop} [Decidable c] {x y : Outcome ε α} {p : α} :
    (if c then x else y) = Outcome.ok p ↔ (c ∧ x = Outcome.ok p) ∨ (¬c ∧ y = Outcome.ok p) := by
  by_cases h : c <;> simp [h]

theorem ite_need_err_eq_ok {ε α : Type} {c : Prop} [Decidable c] {s : String} {k : Bool} {e : ε}
    {rest : Outcome ε α} {p : α} :
    (if c then need s k (Outcome.err e) else rest) = Outcome.ok p ↔ ¬c ∧ rest = Outcome.ok p := by
  by_cases h : c
  · cases k <;> simp [h, need]
  · simp [h]

theorem ite_needBytes_err_eq_ok {ε α : Type} {c : Prop} [Decidable c] {s : String} {b : List UInt8}
    {off k : Nat} {e : ε} {rest : Outcome ε α} {p : α} :
    (if c then needBytes s b off k (Outcome.err e) else rest) = Outcome.ok p
      ↔ ¬c ∧ rest = Outcome.ok p := by
  by_cases h : c
  · by_cases h2 : off + k ≤ b.length <;> simp [h, needBytes, h2]
  · simp [h]

theorem noPanic_ite_need_err {ε α : Type} {c : Prop} [Decidable c] {s : String} {k : Bool} {e : ε}
    {rest : Outcome ε α} (h1 : c → k = true) (h2 : ¬c → NoPanic rest) :
    NoPanic (if c then need s k (Outcome.err e) else rest) := by
  by_cases hc : c
  · simp only [hc, if_true]; exact noPanic_need (h1 hc) (noPanic_err e)
  · simp only [hc, if_false]; exact h2 hc

theorem noPanic_ite_needBytes_err {ε α : Type} {c : Prop} [Decidable c] {s : String}
    {b : List UInt8} {off k : Nat} {e : ε} {rest : Outcome ε α} (h1 : off + k ≤ b.length)
    (h2 : ¬c → NoPanic rest) :
    NoPanic (if c then needBytes s b off k (Outcome.err e) else rest) := by
  by_cases hc : c
  · simp only [hc, if_true]; exact noPanic_needBytes h1 (noPanic_err e)
  · simp only [hc, if_false]; exact h2 hc

/-! ### Bytes -/

theorem byteAt_cons_succ (a : UInt8) (l : List UInt8) (i : Nat) :
    byteAt (a :: l) (i + 1) = byteAt l i := by
  simp [byteAt]

theorem byteAt_cons_zero (a : UInt8) (l : List UInt8) : byteAt (a :: l) 0 = a.toNat := by
  simp [byteAt]

theorem byteAt_drop (b : List UInt8) (k i : Nat) : byteAt (b.drop k) i = byteAt b (k + i) := by
  simp [byteAt, List.getD_eq_getElem?_getD, List.getElem?_drop]

theorem beAt_two (b : List UInt8) (off : Nat) :
    beAt b off 2 = byteAt b off * 256 + byteAt b (off + 1) := by
  simp [beAt]

theorem byte_take (b : List UInt8) (off : Nat) (h : off < b.length) :
    [UInt8.ofNat (byteAt b off)] = (b.drop off).take 1 := by
  rw [ofNat_byteAt b off h, List.drop_eq_getElem_cons h, List.take_succ_cons, List.take_zero]

theorem bytes_take (b : List UInt8) (k : Nat) : ∀ (off : Nat), off + k ≤ b.length →
    (List.range k).map (fun i => UInt8.ofNat (byteAt b (off + i))) = (b.drop off).take k := by
  induction k with
  | zero => intro off _; simp
  | succ k ih =>
    intro off h
    have hlt : off < b.length := by omega
    rw [List.range_succ_eq_map, List.map_cons, List.map_map, List.drop_eq_getElem_cons hlt,
      List.take_succ_cons, ← ih (off + 1) (by omega), Nat.add_zero, ofNat_byteAt b off hlt]
    congr 1
    apply List.map_congr_left
    intro i _
    simp only [Function.comp, Nat.succ_eq_add_one]
    rw [show off + (i + 1) = off + 1 + i by omega]

/-- Consecutive pieces of a list glue to a longer prefix. -/
theorem take_append_piece (b : List UInt8) (off k n : Nat) (h : off + k = n) :
    b.take off ++ (b.drop off).take k = b.take n := by
  subst h; rw [List.take_add]

theorem drop_split' (b : List UInt8) (off k n : Nat) (h : off + k = n) :
    b.drop off = (b.drop off).take k ++ b.drop n := by
  subst h; exact drop_split b off k

theorem beBytes_two (n : Nat) : beBytes n 2 = [UInt8.ofNat (n / 256 % 256), UInt8.ofNat (n % 256)] := by
  simp [beBytes, leBytes]

/-! ### Two's complement -/

theorem toSigned16_bounds (n : Nat) (h : n < 65536) :
    -32768 ≤ toSigned 16 n ∧ toSigned 16 n ≤ 32767 := by
  unfold toSigned
  split <;> simp at * <;> omega

theorem ofSigned_toSigned16 (n : Nat) (h : n < 65536) : ofSigned 16 (toSigned 16 n) = n := by
  unfold toSigned ofSigned
  split <;> simp at * <;> omega

theorem ofSigned_toSigned32 (n : Nat) (h : n < 4294967296) : ofSigned 32 (toSigned 32 n) = n := by
  unfold toSigned ofSigned
  split <;> simp at * <;> omega

theorem ofSigned16_lt (x : Int) : ofSigned 16 x < 65536 := by
  unfold ofSigned
  have : (0 : Int) ≤ x % ((2 ^ 16 : Nat) : Int) := Int.emod_nonneg _ (by simp)
  have : x % ((2 ^ 16 : Nat) : Int) < ((2 ^ 16 : Nat) : Int) := Int.emod_lt_of_pos _ (by simp)
  simp at *
  omega

theorem toSigned_ofSigned16 (x : Int) (h : -32768 ≤ x ∧ x ≤ 32767) :
    toSigned 16 (ofSigned 16 x) = x := by
  unfold toSigned ofSigned
  have e : ((2 ^ 16 : Nat) : Int) = 65536 := by decide
  rw [e]
  split <;> simp at * <;> omega

namespace Adc

/-! ### Samples -/

theorem i16s_cons2 (a c : UInt8) (rest : List UInt8) :
    i16s (a :: c :: rest) = toSigned 16 (a.toNat * 256 + c.toNat) :: i16s rest := rfl

theorem i16s_length (l : List UInt8) : (i16s l).length = l.length / 2 := by
  fun_induction i16s l with
  | case1 a c rest ih => simp [ih]; omega
  | case2 l h =>
    match l, h with
    | [], _ => rfl
    | [_], _ => simp
    | a :: c :: rest, h => exact absurd rfl (h a c rest)

theorem i16s_bounds (l : List UInt8) : ∀ x ∈ i16s l, -32768 ≤ x ∧ x ≤ 32767 := by
  fun_induction i16s l with
  | case1 a c rest ih =>
    intro x hx
    rcases List.mem_cons.1 hx with rfl | hx
    · have ha := UInt8.toNat_lt a; have hc := UInt8.toNat_lt c
      exact toSigned16_bounds _ (by omega)
    · exact ih x hx
  | case2 l h => intro x hx; cases hx

/-- The decoded samples are the big-endian 16-bit fields at consecutive even offsets. -/
theorem i16s_take_eq_map (n : Nat) : ∀ (l : List UInt8), 2 * n ≤ l.length →
    i16s (l.take (2 * n)) = (List.range n).map (fun i => toSigned 16 (beAt l (2 * i) 2)) := by
  induction n with
  | zero => intro l _; simp [i16s]
  | succ n ih =>
    intro l hl
    match l, hl with
    | a :: c :: rest, hl =>
      have hr : 2 * n ≤ rest.length := by simp at hl; omega
      rw [show 2 * (n + 1) = 2 * n + 1 + 1 by omega, List.take_succ_cons, List.take_succ_cons,
        i16s_cons2, ih rest hr, List.range_succ_eq_map, List.map_cons, List.map_map]
      congr 1
      · simp [beAt_two, byteAt_cons_succ, byteAt_cons_zero]

theorem encodeSamples_i16s (l : List UInt8) (h : l.length % 2 = 0) :
    encodeSamples (i16s l) = l := by
  fun_induction i16s l with
  | case1 a c rest ih =>
    have ha := UInt8.toNat_lt a; have hc := UInt8.toNat_lt c
    have hr : rest.length % 2 = 0 := by simp at h; omega
    rw [encodeSamples, ih hr, ofSigned_toSigned16 _ (by omega)]
    have e1 : (a.toNat * 256 + c.toNat) % 256 = c.toNat := by omega
    have e2 : (a.toNat * 256 + c.toNat) / 256 % 256 = a.toNat := by omega
    simp [beBytes, leBytes, e1, e2]
  | case2 l hne =>
    match l, hne, h with
    | [], _, _ => rfl
    | [_], _, h => simp at h
    | a :: c :: rest, hne, _ => exact absurd rfl (hne a c rest)

/-! ### The baseline sum -/

theorem sum_bounds (l : List Int) (h : ∀ x ∈ l, -32768 ≤ x ∧ x ≤ 32767) :
    -32768 * (l.length : Int) ≤ l.sum ∧ l.sum ≤ 32767 * (l.length : Int) := by
  induction l with
  | nil => simp
  | cons x xs ih =>
    have hx := h x (List.mem_cons_self)
    have := ih (fun y hy => h y (List.mem_cons_of_mem _ hy))
    simp only [List.sum_cons, List.length_cons]
    omega

theorem sumFitsI32_of_bounds (l : List Int) : ∀ (acc : Int),
    (∀ x ∈ l, -32768 ≤ x ∧ x ≤ 32767) →
    -2147483648 ≤ acc - 32768 * (l.length : Int) → acc + 32767 * (l.length : Int) ≤ 2147483647 →
    sumFitsI32 acc l = true := by
  induction l with
  | nil => intros; rfl
  | cons x xs ih =>
    intro acc h h1 h2
    have hx := h x (List.mem_cons_self)
    simp only [List.length_cons] at h1 h2
    simp only [sumFitsI32, Bool.and_eq_true, decide_eq_true_eq]
    refine ⟨by omega, ih (acc + x) (fun y hy => h y (List.mem_cons_of_mem _ hy)) (by omega) (by omega)⟩

/-- C02 (`adc_baseline_floor` core): the truncating `num / 64`, `num % 64 < 0 → d - 1`
computation is floor division. -/
theorem floorDiv64_eq_fdiv (n : Int) : floorDiv64 n = Int.fdiv n 64 := by
  unfold floorDiv64
  rw [Int.fdiv_eq_ediv_of_nonneg _ (by omega : (0 : Int) ≤ 64), Int.tdiv_eq_ediv, Int.tmod_eq_emod]
  have h1 : (64 : Int).sign = 1 := rfl
  have h2 : (64 : Int).natAbs = 64 := rfl
  rw [h1, h2]
  split <;> split <;> omega

end Adc
end AlphaG
