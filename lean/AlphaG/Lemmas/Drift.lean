import AlphaG.Model.Drift
import AlphaG.Lemmas.Bytes
import Mathlib.Algebra.Order.Field.Basic
import Mathlib.Tactic.Linarith
import Mathlib.Tactic.FieldSimp
import Mathlib.Tactic.Positivity
import Mathlib.Tactic.Ring
/-
Generic theory of the drift lookup over a linear ordered field (exact arithmetic): the
specification predicates (`SliceOk`, `TablesOk`, `InSlice`, `Bracket`) and the lemmas the
property theorems of `Props/C18.lean` are assembled from.
-/
set_option linter.unusedSectionVars false

namespace AlphaG.Drift

variable {K : Type} [Field K] [LinearOrder K] [IsStrictOrderedRing K]

/-- The model's operations read in a linear ordered field (exact arithmetic, total order). -/
def fieldOps (K : Type) [Field K] [LinearOrder K] [IsStrictOrderedRing K] : Ops K where
  add := fun a b => a + b
  sub := fun a b => a - b
  mul := fun a b => a * b
  div := fun a b => a / b
  abs := fun a => |a|
  lt := fun a b => decide (a < b)
  le := fun a b => decide (a ≤ b)

/-! ### Accessors (total; every use is guarded by an index bound) -/

/-- knot `i` of a table (zero knot beyond the end) -/
def kn (tb : List (Knot K)) (i : Nat) : Knot K := tb.getD i ⟨0, 0, 0⟩
/-- slice `i` of the tables (empty slice beyond the end) -/
def sl (ts : List (Slice K)) (i : Nat) : Slice K := ts.getD i ⟨[], 0⟩
/-- z upper bound of slice `i` -/
def zb (ts : List (Slice K)) (i : Nat) : K := (sl ts i).zUpper
/-- the largest tabulated z bound (the last one) -/
def zMax (ts : List (Slice K)) : K := zb ts (ts.length - 1)
/-- first tabulated time of a table -/
def tFirst (tb : List (Knot K)) : K := (kn tb 0).t
/-- last tabulated time of a table -/
def tLast (tb : List (Knot K)) : K := (kn tb (tb.length - 1)).t

theorem getElem?_kn {tb : List (Knot K)} {i : Nat} (h : i < tb.length) : tb[i]? = some (kn tb i) := by
  simp [kn, List.getD_eq_getElem?_getD, List.getElem?_eq_getElem h]

theorem kn_eq_getElem {tb : List (Knot K)} {i : Nat} (h : i < tb.length) : kn tb i = tb[i] := by
  simp [kn, List.getD_eq_getElem?_getD, List.getElem?_eq_getElem h]

theorem getElem?_sl {ts : List (Slice K)} {i : Nat} (h : i < ts.length) : ts[i]? = some (sl ts i) := by
  simp [sl, List.getD_eq_getElem?_getD, List.getElem?_eq_getElem h]

theorem sl_eq_getElem {ts : List (Slice K)} {i : Nat} (h : i < ts.length) : sl ts i = ts[i] := by
  simp [sl, List.getD_eq_getElem?_getD, List.getElem?_eq_getElem h]

/-! ### Specification predicates (written from the comments of drift.rs and the property text) -/

/-- A well-formed table: at least two knots, times strictly ascending, radii non-increasing,
Lorentz corrections non-decreasing starting at 0. -/
structure SliceOk (tb : List (Knot K)) : Prop where
  two : 2 ≤ tb.length
  time_lt : ∀ i, i + 1 < tb.length → (kn tb i).t < (kn tb (i + 1)).t
  radius_ge : ∀ i, i + 1 < tb.length → (kn tb (i + 1)).r ≤ (kn tb i).r
  corr_le : ∀ i, i + 1 < tb.length → (kn tb i).c ≤ (kn tb (i + 1)).c
  corr_zero : (kn tb 0).c = 0

/-- Well-formed tables: at least one slice, every slice well formed, z upper bounds positive
and strictly ascending. -/
structure TablesOk (ts : List (Slice K)) : Prop where
  one : 1 ≤ ts.length
  slice : ∀ i, i < ts.length → SliceOk (sl ts i).table
  z_pos : 0 < zb ts 0
  z_lt : ∀ i, i + 1 < ts.length → zb ts i < zb ts (i + 1)

/-- `a = |z|` belongs to the z region of slice `i`: below or at its upper bound, above every
earlier bound. -/
def InSlice (ts : List (Slice K)) (i : Nat) (a : K) : Prop := a ≤ zb ts i ∧ ∀ j, j < i → zb ts j < a

/-- knots `k-1`, `k` bracket `t` -/
def Bracket (tb : List (Knot K)) (t : K) (k : Nat) : Prop :=
  1 ≤ k ∧ k < tb.length ∧ (kn tb (k - 1)).t ≤ t ∧ t ≤ (kn tb k).t

/-! ### Monotonicity of the columns -/

theorem SliceOk.time_mono {tb : List (Knot K)} (ok : SliceOk tb) {i j : Nat} (hij : i ≤ j)
    (hj : j < tb.length) : (kn tb i).t ≤ (kn tb j).t := by
  induction j with
  | zero => have : i = 0 := by omega
            subst this; exact le_refl _
  | succ j ih =>
    rcases Nat.lt_or_ge i (j + 1) with h | h
    · exact le_trans (ih (by omega) (by omega)) (le_of_lt (ok.time_lt j hj))
    · have : i = j + 1 := by omega
      subst this; exact le_refl _

theorem SliceOk.time_strict {tb : List (Knot K)} (ok : SliceOk tb) {i j : Nat} (hij : i < j)
    (hj : j < tb.length) : (kn tb i).t < (kn tb j).t :=
  lt_of_lt_of_le (ok.time_lt i (by omega)) (ok.time_mono (by omega : i + 1 ≤ j) hj)

theorem SliceOk.radius_anti {tb : List (Knot K)} (ok : SliceOk tb) {i j : Nat} (hij : i ≤ j)
    (hj : j < tb.length) : (kn tb j).r ≤ (kn tb i).r := by
  induction j with
  | zero => have : i = 0 := by omega
            subst this; exact le_refl _
  | succ j ih =>
    rcases Nat.lt_or_ge i (j + 1) with h | h
    · exact le_trans (ok.radius_ge j hj) (ih (by omega) (by omega))
    · have : i = j + 1 := by omega
      subst this; exact le_refl _

theorem SliceOk.corr_mono {tb : List (Knot K)} (ok : SliceOk tb) {i j : Nat} (hij : i ≤ j)
    (hj : j < tb.length) : (kn tb i).c ≤ (kn tb j).c := by
  induction j with
  | zero => have : i = 0 := by omega
            subst this; exact le_refl _
  | succ j ih =>
    rcases Nat.lt_or_ge i (j + 1) with h | h
    · exact le_trans (ih (by omega) (by omega)) (ok.corr_le j hj)
    · have : i = j + 1 := by omega
      subst this; exact le_refl _

theorem SliceOk.corr_nonneg {tb : List (Knot K)} (ok : SliceOk tb) {i : Nat} (hi : i < tb.length) :
    0 ≤ (kn tb i).c := by
  have := ok.corr_mono (Nat.zero_le i) hi
  rwa [ok.corr_zero] at this

theorem TablesOk.z_mono {ts : List (Slice K)} (ok : TablesOk ts) {i j : Nat} (hij : i ≤ j)
    (hj : j < ts.length) : zb ts i ≤ zb ts j := by
  induction j with
  | zero => have : i = 0 := by omega
            subst this; exact le_refl _
  | succ j ih =>
    rcases Nat.lt_or_ge i (j + 1) with h | h
    · exact le_trans (ih (by omega) (by omega)) (le_of_lt (ok.z_lt j hj))
    · have : i = j + 1 := by omega
      subst this; exact le_refl _

end AlphaG.Drift
