import AlphaG.Lemmas.ClusterList
/-
The accumulator invariant (DESIGN.md section 12): every bucket holds, modulo `==`, exactly the
points of the current multiset that vote for its bin. The multiset is represented by its
multiplicity function `m : point → Nat` (multiplicity of the `==`-class).
Core Lean only.
-/
namespace AlphaG.Cluster

/-- Generic form: bucket of key `b` has multiplicities `w b`. -/
structure InvW (ctx : Ctx) (acc : Acc) (w : Nat → Nat → Nat) : Prop where
  dense_ok : acc.dense = true → ∀ i (h : i < acc.entries.size), acc.entries[i].1 = i
  keys_inj : ∀ i j (hi : i < acc.entries.size) (hj : j < acc.entries.size),
    acc.entries[i].1 = acc.entries[j].1 → i = j
  buckets : ∀ i (h : i < acc.entries.size) x, cnt ctx x acc.entries[i].2 = w acc.entries[i].1 x
  cover : ∀ b x, 0 < w b x → ∃ i, ∃ h : i < acc.entries.size, acc.entries[i].1 = b

theorem InvW.congr {ctx : Ctx} {acc : Acc} {w w' : Nat → Nat → Nat} (inv : InvW ctx acc w)
    (h : ∀ b x, w b x = w' b x) : InvW ctx acc w' := by
  have : w = w' := funext fun b => funext fun x => h b x
  rw [← this]; exact inv

/-! ### `findKey`: both lookup paths return the position of the key -/

theorem findKey_some {ctx : Ctx} {acc : Acc} {w : Nat → Nat → Nat} (inv : InvW ctx acc w)
    {b i : Nat} (h : findKey acc b = some i) :
    ∃ hi : i < acc.entries.size, acc.entries[i].1 = b := by
  unfold findKey at h
  by_cases hd : acc.dense = true
  · simp only [hd, if_true] at h
    by_cases hb : b < acc.entries.size
    · simp only [hb, if_true, Option.some.injEq] at h
      subst h
      exact ⟨hb, inv.dense_ok hd b hb⟩
    · simp [hb] at h
  · simp only [hd, Bool.false_eq_true, if_false] at h
    obtain ⟨hi, hp, _⟩ := List.findIdx?_eq_some_iff_getElem.1 h
    have hi' : i < acc.entries.size := by simpa using hi
    refine ⟨hi', ?_⟩
    simpa using hp

theorem findKey_none {ctx : Ctx} {acc : Acc} {w : Nat → Nat → Nat} (inv : InvW ctx acc w)
    {b : Nat} (h : findKey acc b = none) :
    ∀ i (hi : i < acc.entries.size), acc.entries[i].1 ≠ b := by
  unfold findKey at h
  intro i hi
  by_cases hd : acc.dense = true
  · simp only [hd, if_true] at h
    by_cases hb : b < acc.entries.size
    · simp [hb] at h
    · have := inv.dense_ok hd i hi
      omega
  · simp only [hd, Bool.false_eq_true, if_false] at h
    have := List.findIdx?_eq_none_iff.1 h acc.entries[i] (by simp)
    simpa using this

/-! ### bucket update and key insertion -/

theorem InvW.modify {ctx : Ctx} {acc : Acc} {w w' : Nat → Nat → Nat} (inv : InvW ctx acc w)
    {i : Nat} (hi : i < acc.entries.size) (g : List Nat → List Nat)
    (hb : ∀ x, cnt ctx x (g acc.entries[i].2) = w' acc.entries[i].1 x)
    (hw : ∀ b' x, b' ≠ acc.entries[i].1 → w' b' x = w b' x)
    (hc : ∀ b x, 0 < w' b x → 0 < w b x ∨ b = acc.entries[i].1) :
    InvW ctx ⟨acc.entries.modify i (fun e => (e.1, g e.2)), acc.dense⟩ w' := by
  have key : ∀ j (hj : j < (acc.entries.modify i (fun e => (e.1, g e.2))).size),
      ((acc.entries.modify i (fun e => (e.1, g e.2)))[j]).1
        = (acc.entries[j]'(by simpa using hj)).1 := by
    intro j hj
    rw [Array.getElem_modify]
    split <;> rfl
  have val : ∀ j (hj : j < (acc.entries.modify i (fun e => (e.1, g e.2))).size),
      ((acc.entries.modify i (fun e => (e.1, g e.2)))[j]).2
        = if i = j then g (acc.entries[j]'(by simpa using hj)).2
          else (acc.entries[j]'(by simpa using hj)).2 := by
    intro j hj
    rw [Array.getElem_modify]
    split <;> rfl
  constructor
  · intro hd j hj
    rw [key j hj]
    exact inv.dense_ok hd j (by simpa using hj)
  · intro j k hj hk h
    rw [key j hj, key k hk] at h
    exact inv.keys_inj j k (by simpa using hj) (by simpa using hk) h
  · intro j hj x
    have hj' : j < acc.entries.size := by simpa using hj
    rw [key j hj, val j hj]
    by_cases hij : i = j
    · subst hij
      simp only [if_true]
      exact hb x
    · simp only [hij, if_false]
      rw [inv.buckets j hj' x, hw]
      intro h
      exact hij (inv.keys_inj j i hj' hi h).symm
  · intro b x hpos
    rcases hc b x hpos with h | h
    · obtain ⟨j, hj, hk⟩ := inv.cover b x h
      exact ⟨j, by simpa using hj, by rw [key]; exact hk⟩
    · exact ⟨i, by simpa using hi, by rw [key]; exact h.symm⟩

theorem InvW.push {ctx : Ctx} {acc : Acc} {w w' : Nat → Nat → Nat} (inv : InvW ctx acc w)
    {b : Nat} (v : List Nat) (hnew : ∀ i (hi : i < acc.entries.size), acc.entries[i].1 ≠ b)
    (hb : ∀ x, cnt ctx x v = w' b x)
    (hw : ∀ b' x, b' ≠ b → w' b' x = w b' x)
    (hc : ∀ b' x, 0 < w' b' x → 0 < w b' x ∨ b' = b) :
    InvW ctx ⟨acc.entries.push (b, v), acc.dense && b == acc.entries.size⟩ w' := by
  constructor
  · intro hd j hj
    simp only [Bool.and_eq_true, beq_iff_eq] at hd
    rw [Array.getElem_push]
    by_cases hlt : j < acc.entries.size
    · simp only [hlt, dite_true]; exact inv.dense_ok hd.1 j hlt
    · simp only [hlt, dite_false]
      have : j < acc.entries.size + 1 := by simpa using hj
      omega
  · intro j k hj hk h
    rw [Array.getElem_push, Array.getElem_push] at h
    have hj1 : j < acc.entries.size + 1 := by simpa using hj
    have hk1 : k < acc.entries.size + 1 := by simpa using hk
    by_cases hjl : j < acc.entries.size <;> by_cases hkl : k < acc.entries.size
    · simp only [hjl, hkl, dite_true] at h; exact inv.keys_inj j k hjl hkl h
    · simp only [hjl, hkl, dite_true, dite_false] at h; exact absurd h (hnew j hjl)
    · simp only [hjl, hkl, dite_true, dite_false] at h; exact absurd h.symm (hnew k hkl)
    · omega
  · intro j hj x
    rw [Array.getElem_push]
    by_cases hjl : j < acc.entries.size
    · simp only [hjl, dite_true]
      rw [inv.buckets j hjl x, hw _ _ (hnew j hjl)]
    · simp only [hjl, dite_false]; exact hb x
  · intro b' x hpos
    rcases hc b' x hpos with h | h
    · obtain ⟨j, hj, hk⟩ := inv.cover b' x h
      refine ⟨j, by simp; omega, ?_⟩
      rw [Array.getElem_push]; simp only [hj, dite_true]; exact hk
    · refine ⟨acc.entries.size, by simp, ?_⟩
      rw [Array.getElem_push]; simp [h]

/-! ### one bin -/

theorem addBin_inv {ctx : Ctx} {acc : Acc} {w : Nat → Nat → Nat} (inv : InvW ctx acc w)
    (b p : Nat) :
    InvW ctx (addBin acc b p) (fun b' x => w b' x + if b' = b then ind ctx x p else 0) := by
  unfold addBin
  cases hk : findKey acc b with
  | some i =>
    obtain ⟨hi, hkey⟩ := findKey_some inv hk
    simp only
    refine inv.modify hi (fun v => v ++ [p]) ?_ ?_ ?_
    · intro x
      rw [cnt_append, inv.buckets i hi x, cnt_cons, cnt_nil, hkey]
      simp
    · intro b' x hne
      rw [hkey] at hne; simp [hne]
    · intro b' x hpos
      by_cases hbb : b' = b
      · right; rw [hkey]; exact hbb
      · left; simpa [hbb] using hpos
  | none =>
    have hnew := findKey_none inv hk
    simp only
    refine inv.push [p] hnew ?_ ?_ ?_
    · intro x
      have h0 : w b x = 0 := by
        cases hw : w b x with
        | zero => rfl
        | succ n =>
          obtain ⟨j, hj, hkj⟩ := inv.cover b x (by omega)
          exact absurd hkj (hnew j hj)
      rw [cnt_cons, cnt_nil, h0]; simp
    · intro b' x hne; simp [hne]
    · intro b' x hpos
      by_cases hbb : b' = b
      · right; exact hbb
      · left; simpa [hbb] using hpos

theorem removeBin_inv {ctx : Ctx} (g : ctx.Good) {acc : Acc} {w : Nat → Nat → Nat}
    (inv : InvW ctx acc w) {b p : Nat} (hpos : 0 < w b p) :
    ∃ acc', removeBin ctx acc b p = .ok acc' ∧
      InvW ctx acc' (fun b' x => w b' x - if b' = b then ind ctx x p else 0) := by
  unfold removeBin
  cases hk : findKey acc b with
  | none =>
    obtain ⟨j, hj, hkj⟩ := inv.cover b p hpos
    exact absurd hkj (findKey_none inv hk j hj)
  | some i =>
    obtain ⟨hi, hkey⟩ := findKey_some inv hk
    simp only
    have hget : acc.entries[i]! = acc.entries[i] := getElem!_pos acc.entries i hi
    rw [hget]
    have hcp : 0 < cnt ctx p acc.entries[i].2 := by rw [inv.buckets i hi p, hkey]; exact hpos
    cases hpo : position (fun q => ctx.eq q p) acc.entries[i].2 with
    | none => exact absurd hpo (position_ne_none g hcp)
    | some pos =>
      simp only
      refine ⟨_, rfl, ?_⟩
      refine inv.modify hi (fun v => swapRemove v pos) ?_ ?_ ?_
      · intro x
        have := cnt_swapRemove_position g hpo x
        rw [inv.buckets i hi x, hkey] at this
        simp only [hkey, if_true]
        omega
      · intro b' x hne
        rw [hkey] at hne; simp [hne]
      · intro b' x hp
        left
        have : 0 < w b' x - (if b' = b then ind ctx x p else 0) := hp
        omega

/-! ### all bins of a point -/

theorem addBins_inv {ctx : Ctx} (p : Nat) :
    ∀ (bs : List Nat) {acc : Acc} {w : Nat → Nat → Nat}, bs.Nodup → InvW ctx acc w →
      InvW ctx (addBins p bs acc) (fun b' x => w b' x + if b' ∈ bs then ind ctx x p else 0) := by
  intro bs
  induction bs with
  | nil => intro acc w _ inv; simpa [addBins] using inv
  | cons b bs ih =>
    intro acc w hnd inv
    rw [List.nodup_cons] at hnd
    unfold addBins
    refine (ih hnd.2 (addBin_inv inv b p)).congr ?_
    intro b' x
    by_cases h1 : b' = b
    · subst h1; simp [hnd.1]
    · simp [h1]

theorem removeBins_inv {ctx : Ctx} (g : ctx.Good) (p : Nat) :
    ∀ (bs : List Nat) {acc : Acc} {w : Nat → Nat → Nat}, bs.Nodup → InvW ctx acc w →
      (∀ b ∈ bs, 0 < w b p) →
      ∃ acc', removeBins ctx p bs acc = .ok acc' ∧
        InvW ctx acc' (fun b' x => w b' x - if b' ∈ bs then ind ctx x p else 0) := by
  intro bs
  induction bs with
  | nil => intro acc w _ inv _; exact ⟨acc, rfl, by simpa using inv⟩
  | cons b bs ih =>
    intro acc w hnd inv hpos
    rw [List.nodup_cons] at hnd
    obtain ⟨acc1, h1, inv1⟩ := removeBin_inv g inv (hpos b List.mem_cons_self)
    have hpos1 : ∀ b' ∈ bs, 0 < (fun b' x => w b' x - if b' = b then ind ctx x p else 0) b' p := by
      intro b' hb'
      have hne : b' ≠ b := fun h => hnd.1 (h ▸ hb')
      simpa [hne] using hpos b' (List.mem_cons_of_mem _ hb')
    obtain ⟨acc2, h2, inv2⟩ := ih hnd.2 inv1 hpos1
    refine ⟨acc2, ?_, inv2.congr ?_⟩
    · unfold removeBins; rw [h1]; exact h2
    · intro b' x
      by_cases hb : b' = b
      · subst hb; simp [hnd.1]
      · simp [hb]

/-! ### the invariant in terms of the multiplicity function of the current multiset -/

def InvC (ctx : Ctx) (acc : Acc) (m : Nat → Nat) : Prop :=
  InvW ctx acc (fun b x => if b ∈ ctx.bins x then m x else 0)

theorem InvC.congr {ctx : Ctx} {acc : Acc} {m m' : Nat → Nat} (inv : InvC ctx acc m)
    (h : ∀ x, m x = m' x) : InvC ctx acc m' := by
  have : m = m' := funext h
  rw [← this]; exact inv

theorem InvC.empty (ctx : Ctx) : InvC ctx Acc.empty (fun _ => 0) := by
  constructor
  · intro _ i h; simp [Acc.empty] at h
  · intro i j hi; simp [Acc.empty] at hi
  · intro i h; simp [Acc.empty] at h
  · intro b x h; simp at h

theorem add_inv {ctx : Ctx} (g : ctx.Good) {acc : Acc} {m : Nat → Nat} (inv : InvC ctx acc m)
    (p : Nat) : InvC ctx (add ctx acc p) (fun x => m x + ind ctx x p) := by
  unfold add InvC
  refine (addBins_inv p (ctx.bins p) (g.bins_nodup p) inv).congr ?_
  intro b x
  by_cases hxp : ctx.eq x p = true
  · have := g.bins_eq x p hxp b
    by_cases hb : b ∈ ctx.bins x
    · simp [hb, this.1 hb]
    · have hb' : b ∉ ctx.bins p := fun h => hb (this.2 h)
      simp [hb, hb']
  · have : ind ctx x p = 0 := by simp [ind, hxp]
    simp [this]

theorem remove_inv {ctx : Ctx} (g : ctx.Good) {acc : Acc} {m : Nat → Nat} (inv : InvC ctx acc m)
    {p : Nat} (hp : 0 < m p) :
    ∃ acc', remove ctx acc p = .ok acc' ∧ InvC ctx acc' (fun x => m x - ind ctx x p) := by
  unfold remove InvC
  obtain ⟨acc', h1, inv'⟩ := removeBins_inv g p (ctx.bins p) (g.bins_nodup p) inv
    (by intro b hb; simp [hb, hp])
  refine ⟨acc', h1, inv'.congr ?_⟩
  intro b x
  by_cases hxp : ctx.eq x p = true
  · have := g.bins_eq x p hxp b
    by_cases hb : b ∈ ctx.bins x
    · simp [hb, this.1 hb]
    · have hb' : b ∉ ctx.bins p := fun h => hb (this.2 h)
      simp [hb, hb']
  · have : ind ctx x p = 0 := by simp [ind, hxp]
    simp [this]

theorem addAll_inv {ctx : Ctx} (g : ctx.Good) :
    ∀ (l : List Nat) {acc : Acc} {m : Nat → Nat}, InvC ctx acc m →
      InvC ctx (addAll ctx l acc) (fun x => m x + cnt ctx x l) := by
  intro l
  induction l with
  | nil => intro acc m inv; simpa [addAll] using inv
  | cons p l ih =>
    intro acc m inv
    unfold addAll
    refine (ih (add_inv g inv p)).congr ?_
    intro x; rw [cnt_cons]; omega

theorem removeAll_inv {ctx : Ctx} (g : ctx.Good) :
    ∀ (l : List Nat) {acc : Acc} {m : Nat → Nat}, InvC ctx acc m → (∀ x, cnt ctx x l ≤ m x) →
      ∃ acc', removeAll ctx l acc = .ok acc' ∧ InvC ctx acc' (fun x => m x - cnt ctx x l) := by
  intro l
  induction l with
  | nil => intro acc m inv _; exact ⟨acc, rfl, by simpa using inv⟩
  | cons p l ih =>
    intro acc m inv hle
    have hp : 0 < m p := by
      have := hle p
      rw [cnt_cons] at this
      have : ind ctx p p = 1 := by simp [ind, g.eq_refl]
      omega
    obtain ⟨acc1, h1, inv1⟩ := remove_inv g inv hp
    have hle1 : ∀ x, cnt ctx x l ≤ (fun x => m x - ind ctx x p) x := by
      intro x; have := hle x; rw [cnt_cons] at this; simp only; omega
    obtain ⟨acc2, h2, inv2⟩ := ih inv1 hle1
    refine ⟨acc2, ?_, inv2.congr ?_⟩
    · unfold removeAll; rw [h1]; exact h2
    · intro x; rw [cnt_cons]; omega

/-- `most_popular` returns a sub-multiset of the current multiset. -/
theorem mostPopular_le {ctx : Ctx} {acc : Acc} {m : Nat → Nat} (inv : InvC ctx acc m) (x : Nat) :
    cnt ctx x (mostPopular acc) ≤ m x := by
  unfold mostPopular
  cases h : lastMaxBy (fun e : Nat × List Nat => e.2.length) acc.entries.toList with
  | none => simp
  | some e =>
    simp only [Option.map_some, Option.getD_some]
    have hm : e ∈ acc.entries := by simpa using lastMaxBy_mem h
    obtain ⟨i, hi, rfl⟩ := Array.getElem_of_mem hm
    rw [inv.buckets i hi x]
    split <;> omega

end AlphaG.Cluster
