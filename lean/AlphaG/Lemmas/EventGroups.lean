import AlphaG.Lemmas.EventTs
/-
The association list that models `pwb_chunks_map`: keys are distinct, the chunks of a key are
exactly the inserted chunks with that key, in insertion order.
-/
namespace AlphaG.Event
open AlphaG AlphaG.Generated

/-- The chunks inserted under key `k`. -/
def chunksFor (k : Key) (kcs : List (Key × Pwb.ChunkV)) : List Pwb.ChunkV :=
  (kcs.filter (fun kc => decide (kc.1 = k))).map (·.2)

/-- `map.get(&k)` -/
def lookupKey (k : Key) : List Group → Option (List Pwb.ChunkV)
  | [] => none
  | g :: rest => if g.1 = k then some g.2 else lookupKey k rest

theorem chunksFor_snoc (k k' : Key) (c : Pwb.ChunkV) (kcs : List (Key × Pwb.ChunkV)) :
    chunksFor k' (kcs ++ [(k, c)]) = if k = k' then chunksFor k' kcs ++ [c] else chunksFor k' kcs := by
  unfold chunksFor
  rw [List.filter_append, List.map_append]
  by_cases h : k = k'
  · simp [h]
  · simp [h]

theorem pushChunk_keys (k : Key) (c : Pwb.ChunkV) : ∀ gs : List Group,
    (pushChunk k c gs).map (·.1) = if k ∈ gs.map (·.1) then gs.map (·.1) else gs.map (·.1) ++ [k]
  | [] => by simp [pushChunk]
  | g :: rest => by
    unfold pushChunk
    by_cases h : g.1 = k
    · simp [h]
    · have ih := pushChunk_keys k c rest
      simp only [h, if_false, List.map_cons, ih, List.mem_cons]
      have : ¬ k = g.1 := fun e => h e.symm
      by_cases hm : k ∈ rest.map (·.1)
      · simp [hm, this]
      · simp [hm, this]

theorem pushChunk_lookup (k : Key) (c : Pwb.ChunkV) (k' : Key) : ∀ gs : List Group,
    lookupKey k' (pushChunk k c gs)
      = if k' = k then some ((lookupKey k gs).getD [] ++ [c]) else lookupKey k' gs
  | [] => by
    by_cases h : k' = k
    · simp [pushChunk, lookupKey, h]
    · have : ¬ k = k' := fun e => h e.symm
      simp [pushChunk, lookupKey, h, this]
  | g :: rest => by
    unfold pushChunk
    by_cases hg : g.1 = k
    · by_cases h : k' = k
      · simp [lookupKey, hg, h]
      · have : ¬ k = k' := fun e => h e.symm
        simp [lookupKey, hg, h, this]
    · have ih := pushChunk_lookup k c k' rest
      by_cases h : k' = k
      · subst h
        simp only [hg, if_false, lookupKey, ih, if_true]
      · by_cases hg' : g.1 = k'
        · simp [lookupKey, hg', h]
        · simp only [hg, if_false, lookupKey, hg', ih, h]

theorem lookupKey_none (k : Key) : ∀ gs : List Group, k ∉ gs.map (·.1) → lookupKey k gs = none
  | [], _ => rfl
  | g :: rest, h => by
    simp only [List.map_cons, List.mem_cons, not_or] at h
    have : ¬ g.1 = k := fun e => h.1 e.symm
    simp only [lookupKey, this, if_false]
    exact lookupKey_none k rest h.2

theorem lookupKey_mem (g : Group) : ∀ gs : List Group, (gs.map (·.1)).Nodup → g ∈ gs →
    lookupKey g.1 gs = some g.2
  | [], _, h => by cases h
  | g0 :: rest, hn, h => by
    simp only [List.map_cons, List.nodup_cons] at hn
    rcases List.mem_cons.1 h with e | hr
    · subst e; simp [lookupKey]
    · have : ¬ g0.1 = g.1 := by
        intro e
        exact hn.1 (e ▸ List.mem_map.2 ⟨g, hr, rfl⟩)
      simp only [lookupKey, this, if_false]
      exact lookupKey_mem g rest hn.2 hr

theorem lookupKey_some {k : Key} {cs : List Pwb.ChunkV} : ∀ gs : List Group,
    lookupKey k gs = some cs → (k, cs) ∈ gs
  | [], h => by cases h
  | g :: rest, h => by
    unfold lookupKey at h
    split at h
    · rename_i e
      cases h
      exact List.mem_cons.2 (Or.inl (by rw [← e]))
    · exact List.mem_cons_of_mem _ (lookupKey_some rest h)

/-- What the fold of `pushChunk` over the (key, chunk) pairs `kcs` guarantees. -/
structure GroupsOk (gs : List Group) (kcs : List (Key × Pwb.ChunkV)) : Prop where
  nodup : (gs.map (·.1)).Nodup
  keys : ∀ k, k ∈ gs.map (·.1) ↔ k ∈ kcs.map (·.1)
  lookup : ∀ k, k ∈ gs.map (·.1) → lookupKey k gs = some (chunksFor k kcs)

theorem groupsOk_nil : GroupsOk [] [] :=
  ⟨List.nodup_nil, fun _ => Iff.rfl, fun _ h => by cases h⟩

theorem groupsOk_push {gs : List Group} {kcs : List (Key × Pwb.ChunkV)} (h : GroupsOk gs kcs)
    (k : Key) (c : Pwb.ChunkV) : GroupsOk (pushChunk k c gs) (kcs ++ [(k, c)]) := by
  have hk := pushChunk_keys k c gs
  refine ⟨?_, ?_, ?_⟩
  · rw [hk]
    split
    · exact h.nodup
    · rename_i hm
      exact List.nodup_append.2 ⟨h.nodup, (by simp), by
        intro a ha b hb; simp only [List.mem_singleton] at hb; subst hb
        intro e; subst e; exact hm ha⟩
  · intro k'
    rw [hk, List.map_append, List.mem_append]
    simp only [List.map_cons, List.map_nil, List.mem_singleton]
    split
    · rename_i hm
      constructor
      · intro h1; exact Or.inl ((h.keys k').1 h1)
      · rintro (h1 | h1)
        · exact (h.keys k').2 h1
        · subst h1; exact hm
    · rw [List.mem_append, List.mem_singleton]
      constructor
      · rintro (h1 | h1)
        · exact Or.inl ((h.keys k').1 h1)
        · exact Or.inr h1
      · rintro (h1 | h1)
        · exact Or.inl ((h.keys k').2 h1)
        · exact Or.inr h1
  · intro k' hk'
    rw [pushChunk_lookup, chunksFor_snoc]
    by_cases e : k' = k
    · subst e
      simp only [if_true]
      by_cases hm : k' ∈ gs.map (·.1)
      · rw [h.lookup k' hm]; rfl
      · rw [lookupKey_none k' gs hm]
        have : chunksFor k' kcs = [] := by
          unfold chunksFor
          rw [List.map_eq_nil_iff, List.filter_eq_nil_iff]
          intro kc hkc
          simp only [decide_eq_true_eq]
          intro e
          exact hm ((h.keys k').2 (e ▸ List.mem_map.2 ⟨kc, hkc, rfl⟩))
        simp [this]
    · have e' : ¬ k = k' := fun x => e x.symm
      simp only [e, e', if_false]
      rw [hk] at hk'
      have : k' ∈ gs.map (·.1) := by
        split at hk'
        · exact hk'
        · rcases List.mem_append.1 hk' with h1 | h1
          · exact h1
          · simp only [List.mem_singleton] at h1; exact absurd h1 e
      exact h.lookup k' this

theorem groupsOk_fold : ∀ (kcs : List (Key × Pwb.ChunkV)) (gs : List Group)
    (done : List (Key × Pwb.ChunkV)), GroupsOk gs done →
    GroupsOk (kcs.foldl (fun gs kc => pushChunk kc.1 kc.2 gs) gs) (done ++ kcs)
  | [], gs, done, h => by simpa using h
  | kc :: rest, gs, done, h => by
    have := groupsOk_fold rest (pushChunk kc.1 kc.2 gs) (done ++ [kc]) (groupsOk_push h kc.1 kc.2)
    simpa using this

/-- The groups of the specification are keyed without repetition, and each group holds exactly
the chunks of its key. -/
theorem groupsOf_ok (banks : List Bank) : GroupsOk (groupsOf banks) (banks.filterMap chunkOf) := by
  have := groupsOk_fold (banks.filterMap chunkOf) [] [] groupsOk_nil
  simpa [groupsOf] using this

theorem GroupsOk.chunks_eq {gs : List Group} {kcs : List (Key × Pwb.ChunkV)} (h : GroupsOk gs kcs)
    {g : Group} (hg : g ∈ gs) : g.2 = chunksFor g.1 kcs := by
  have h1 := lookupKey_mem g gs h.nodup hg
  rw [h.lookup g.1 (List.mem_map.2 ⟨g, hg, rfl⟩)] at h1
  exact (Option.some.inj h1).symm

theorem GroupsOk.mem_of_key {gs : List Group} {kcs : List (Key × Pwb.ChunkV)} (h : GroupsOk gs kcs)
    {k : Key} (hk : k ∈ kcs.map (·.1)) : (k, chunksFor k kcs) ∈ gs :=
  lookupKey_some gs (h.lookup k ((h.keys k).2 hk))

end AlphaG.Event
