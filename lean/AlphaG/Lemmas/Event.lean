import AlphaG.Model.Event
import AlphaG.Lemmas.Bytes
import AlphaG.Props.C01
import AlphaG.Props.C02
import AlphaG.Props.C04
import AlphaG.Props.C05
import AlphaG.Props.C06
import AlphaG.Props.C08
/-
Lemmas for the event-assembly model (C09 / C10 / C11): the calibration lookups never panic (the
`model:` branches are dead), ranges of the decoded ids and samples, `i32` arithmetic, slot
indices.
-/
namespace AlphaG.Event
open AlphaG AlphaG.Generated AlphaG.Maps

/-! ### Calibration dispatch: kernel-checked facts about the generated arms -/

/-- Delay arms select only literals or errors and end in a catch-all. -/
def delayArmsOk (arms : Arms) : Bool :=
  arms.all (fun a => match a.2 with
    | .table _ => false
    | .value _ => true
    | .err _ => true)
  && arms.any (fun a => a.1 == .wild)

theorem cal_arms_wellFormed :
    (armsWellFormed wireBaselineArms wireBaselineTables.length
      && armsWellFormed wireGainArms wireGainTables.length
      && armsWellFormed padBaselineArms padBaselineTables.length
      && armsWellFormed padGainArms padGainTables.length
      && delayArmsOk wireDelayArms && delayArmsOk padDelayArms) = true := by decide

theorem dispatch_some_of_wild (arms : Arms) (run : Nat)
    (hw : arms.any (fun a => a.1 == .wild) = true) : ∃ x, dispatch arms run = some x := by
  induction arms with
  | nil => simp at hw
  | cons b rest ih =>
    obtain ⟨p, y⟩ := b
    simp only [dispatch]
    split
    · exact ⟨y, rfl⟩
    · rename_i hp
      simp only [List.any_cons, Bool.or_eq_true, beq_iff_eq] at hw
      rcases hw with e | hw
      · have e' : p = .wild := e
        subst e'; simp [patMatches] at hp
      · exact ih hw

theorem delay_cases (arms : Arms) (h : delayArmsOk arms = true) (run : Nat) :
    (∃ n, dispatch arms run = some (.value n)) ∨ (∃ v, dispatch arms run = some (.err v)) := by
  simp only [delayArmsOk, Bool.and_eq_true, List.all_eq_true] at h
  obtain ⟨h1, hw⟩ := h
  obtain ⟨x, hx⟩ := dispatch_some_of_wild arms run hw
  have hm := dispatch_mem arms run x hx
  simp only [List.mem_map] at hm
  obtain ⟨b, hb, e⟩ := hm
  have := h1 b hb
  rw [e] at this
  cases x with
  | table i => simp at this
  | value v => exact Or.inl ⟨v, hx⟩
  | err v => exact Or.inr ⟨v, hx⟩

theorem wireLookup_noPanic {β : Type} (arms : Arms) (tables : List (List β × List Nat))
    (h : armsWellFormed arms tables.length = true) (run w : Nat) :
    NoPanic (wireLookup arms tables run w) := by
  unfold wireLookup
  rcases dispatch_cases arms _ h run with ⟨i, hi, e⟩ | ⟨v, e⟩
  · rw [e]
    simp only [List.getElem?_eq_getElem hi]
    split
    · exact noPanic_err _
    · split
      · exact noPanic_ok _
      · exact noPanic_err _
  · rw [e]; exact noPanic_err _

theorem padLookup_noPanic {β : Type} (arms : Arms)
    (tables : List (List (List β) × List (Nat × Nat)))
    (h : armsWellFormed arms tables.length = true) (run c r : Nat) :
    NoPanic (padLookup arms tables run c r) := by
  unfold padLookup
  rcases dispatch_cases arms _ h run with ⟨i, hi, e⟩ | ⟨v, e⟩
  · rw [e]
    simp only [List.getElem?_eq_getElem hi]
    split
    · exact noPanic_err _
    · split
      · exact noPanic_err _
      · split
        · exact noPanic_ok _
        · exact noPanic_err _
  · rw [e]; exact noPanic_err _

theorem delayLookup_noPanic (arms : Arms) (h : delayArmsOk arms = true) (run : Nat) :
    NoPanic (delayLookup arms run) := by
  unfold delayLookup
  rcases delay_cases arms h run with ⟨n, e⟩ | ⟨v, e⟩
  · rw [e]; exact noPanic_ok _
  · rw [e]; exact noPanic_err _

theorem noPanic_mapOut {ε ε' α β : Type} (fe : ε → ε') (fa : α → β) {x : Outcome ε α}
    (h : NoPanic x) : NoPanic (BankName.mapOut fe fa x) := by
  cases x with
  | ok a => exact noPanic_ok _
  | err e => exact noPanic_err _
  | panic s => exact absurd rfl (h s)

theorem cal_facts : armsWellFormed wireBaselineArms wireBaselineTables.length = true
    ∧ armsWellFormed wireGainArms wireGainTables.length = true
    ∧ armsWellFormed padBaselineArms padBaselineTables.length = true
    ∧ armsWellFormed padGainArms padGainTables.length = true
    ∧ delayArmsOk wireDelayArms = true ∧ delayArmsOk padDelayArms = true := by
  have h := cal_arms_wellFormed
  simp only [Bool.and_eq_true] at h
  obtain ⟨⟨⟨⟨⟨a, b⟩, c⟩, d⟩, e⟩, f⟩ := h
  exact ⟨a, b, c, d, e, f⟩

theorem wireBaseline_noPanic (run w : Nat) : NoPanic (wireBaseline run w) :=
  noPanic_mapOut _ _ (wireLookup_noPanic _ _ cal_facts.1 run w)
theorem wireGainBits_noPanic (run w : Nat) : NoPanic (wireGainBits run w) :=
  wireLookup_noPanic _ _ cal_facts.2.1 run w
theorem wireDelay_noPanic (run : Nat) : NoPanic (wireDelay run) :=
  delayLookup_noPanic _ cal_facts.2.2.2.2.1 run
theorem padBaseline_noPanic (run c r : Nat) : NoPanic (padBaseline run c r) :=
  noPanic_mapOut _ _ (padLookup_noPanic _ _ cal_facts.2.2.1 run c r)
theorem padGainBits_noPanic (run c r : Nat) : NoPanic (padGainBits run c r) :=
  padLookup_noPanic _ _ cal_facts.2.2.2.1 run c r
theorem padDelay_noPanic (run : Nat) : NoPanic (padDelay run) :=
  delayLookup_noPanic _ cal_facts.2.2.2.2.2 run

/-- The baseline is an `i16`. -/
theorem clampI16_range (v : Int) : -32768 ≤ clampI16 v ∧ clampI16 v ≤ 32767 := by
  unfold clampI16
  split
  · omega
  · split <;> omega

theorem mapOut_ok {ε α β : Type} (fa : α → β) {x : Outcome ε α} {b : β}
    (h : BankName.mapOut id fa x = .ok b) : ∃ a, x = .ok a ∧ b = fa a := by
  cases x with
  | ok a => simp only [BankName.mapOut, ok_eq_ok] at h; exact ⟨a, rfl, h.symm⟩
  | err e => simp [BankName.mapOut] at h
  | panic s => simp [BankName.mapOut] at h

theorem wireBaseline_range (run w : Nat) (bl : Int) (h : wireBaseline run w = .ok bl) :
    -32768 ≤ bl ∧ bl ≤ 32767 := by
  obtain ⟨a, _, rfl⟩ := mapOut_ok clampI16 h
  exact clampI16_range a

theorem padBaseline_range (run c r : Nat) (bl : Int) (h : padBaseline run c r = .ok bl) :
    -32768 ≤ bl ∧ bl ≤ 32767 := by
  obtain ⟨a, _, rfl⟩ := mapOut_ok clampI16 h
  exact clampI16_range a

/-- `i32::from(v) - i32::from(baseline)` cannot overflow for `i16` operands. -/
theorem subFitsI32_of_range (bl : Int) (wf : List Int) (hb : -32768 ≤ bl ∧ bl ≤ 32767)
    (hw : ∀ v ∈ wf, -32768 ≤ v ∧ v ≤ 32767) : subFitsI32 bl wf = true := by
  simp only [subFitsI32, List.all_eq_true, decide_eq_true_eq]
  intro v hv
  have := hw v hv
  omega

/-! ### Facts about decoded packets -/

theorem toSigned16_range (n : Nat) (h : n < 65536) :
    -32768 ≤ toSigned 16 n ∧ toSigned 16 n ≤ 32767 := by
  unfold toSigned
  split <;> simp at * <;> omega

theorem findIdx_getD_lt {β : Type} (l : List β) (f : β → Bool) (h : 0 < l.length) :
    (l.findIdx? f).getD 0 < l.length := by
  cases hx : l.findIdx? f with
  | none => simpa using h
  | some i =>
    simp only [Option.getD_some]
    exact (List.findIdx?_eq_some_iff_findIdx_eq.1 hx).1

theorem a16Row_lt (b : Option (String × List Nat)) : a16Row b < 8 := by
  unfold a16Row
  cases b with
  | none => simp
  | some x =>
    simp only [Option.bind_some]
    exact findIdx_getD_lt alpha16Boards _ (by decide)

theorem pwbRow_lt (p : Pwb.PwbPacket) : pwbRow p < padwingBoards.length := by
  unfold pwbRow
  exact findIdx_getD_lt padwingBoards _ (by decide)

/-- What `try_from_banks` uses of an accepted ADC packet. -/
theorem adc_facts (b : List UInt8) (p : Adc.Packet) (h : Adc.decodeAdcPacket b = .ok p) :
    (p.waveform ≠ [] → p.boardId.isSome = true)
    ∧ (∀ ch, p.channelId = .a32 ch → ch < 32)
    ∧ (∀ v ∈ p.waveform, -32768 ≤ v ∧ v ≤ 32767) := by
  obtain ⟨wf, rfl⟩ := (Adc.decode_ok_iff b p).1 h
  refine ⟨?_, ?_, ?_⟩
  · intro hne
    unfold Adc.fields at hne ⊢
    by_cases hl : b.length = 16
    · simp [hl] at hne
    · simp only [hl, if_false]
      rcases wf.form with sf | lf
      · exact absurd sf.len hl
      · have hm := lf.mac
        unfold Adc.knownMacs at hm
        obtain ⟨t, ht, hte⟩ := List.mem_map.1 hm
        rw [Option.isSome_iff_ne_none]
        intro hnone
        rw [List.head?_eq_none_iff] at hnone
        have : t ∈ alpha16Boards.filter (fun p => decide (p.2 = Adc.macF b)) :=
          List.mem_filter.2 ⟨ht, by simpa using hte⟩
        rw [hnone] at this
        cases this
  · intro ch hch
    unfold Adc.fields at hch
    simp only at hch
    have hc := wf.channel
    split at hch
    · exact Adc.ChannelId.noConfusion hch
    · have e : byteAt b 5 - 128 = ch := Adc.ChannelId.a32.inj hch
      omega
  · intro v hv
    unfold Adc.fields at hv
    simp only at hv
    split at hv
    · cases hv
    · obtain ⟨i, _, rfl⟩ := List.mem_map.1 hv
      exact toSigned16_range _ (beAt_lt b (32 + 2 * i) 2)

/-- What `try_from_banks` uses of a reassembled PWB packet. -/
theorem pwb_facts (b : List UInt8) (p : Pwb.PwbPacket) (h : Pwb.decodePwb b = .ok p) :
    p.afterId < 4
    ∧ (∀ n, Pwb.ChannelId.pad n ∈ p.channelsSent → 1 ≤ n ∧ n ≤ 72)
    ∧ (∀ c ∈ p.channelsSent, ∃ wf, Pwb.waveformAt p c = .ok (some wf)
        ∧ ∀ v ∈ wf, -32768 ≤ v ∧ v ≤ 32767) := by
  refine ⟨?_, ?_, ?_⟩
  · obtain ⟨w, rfl⟩ := (Pwb.decodePwb_ok_iff b p).1 h
    have := w.chip
    simp only [Pwb.fields]
    omega
  · intro n hn
    have hs := (Pwb.pwb_channels_sent b p h).1
    have : some (Pwb.ChannelId.pad n) ∈ p.channelsSent.map some := List.mem_map.2 ⟨_, hn, rfl⟩
    rw [hs] at this
    obtain ⟨i, _, hi⟩ := List.mem_map.1 this
    exact Pwb.readout_bijective.2.2.2.1 (i + 1) (.pad n) hi
  · intro c hc
    obtain ⟨k, hk, rfl⟩ := List.mem_iff_getElem.1 hc
    refine ⟨_, (Pwb.pwb_waveform b p h).1 k hk, ?_⟩
    intro v hv
    obtain ⟨j, _, rfl⟩ := List.mem_map.1 hv
    exact toSigned16_range _ (leAt_lt b (Pwb.blockOff b k + 4 + 2 * j) 2)

/-! ### Maps: totality and ranges (from C08) -/

theorem wirePosition_ok_lt (run b c w : Nat) (hb : b < 8) (hc : c < 32)
    (h : wirePosition run b c = .ok w) : w < 256 := by
  by_cases hm : wireMapExists run
  · obtain ⟨w', hw', e⟩ := (Maps.wire_bijection run hm).total b c hb hc
    rw [e] at h; cases h; exact hw'
  · obtain ⟨e, he⟩ := wire_no_map_errors run hm b c
    rw [he] at h; cases h

theorem pwbPosition_cases (run : Nat) :
    pwbMapExists run ∨ ∃ v, ∀ b, pwbPosition run b = .err v := by
  have wf := arms_wellFormed
  simp only [Bool.and_eq_true] at wf
  rcases dispatch_cases pwbArms _ wf.2 run with ⟨i, _, e⟩ | ⟨v, e⟩
  · left; unfold pwbMapExists hasMapAt; rw [e]
  · right; exact ⟨v, fun b => by simp only [pwbPosition, e]⟩

theorem padPosition_cases (run b chip ch : Nat) (hb : b < padwingBoards.length) (hchip : chip < 4)
    (h1 : 1 ≤ ch) (h2 : ch ≤ 72) :
    (∃ p, p.1 < 32 ∧ p.2 < 576 ∧ padPosition run b chip ch = .ok p)
    ∨ (∃ e, padPosition run b chip ch = .err e) := by
  rcases pwbPosition_cases run with hm | ⟨v, hv⟩
  · have B := Maps.pad_bijection run hm
    by_cases hi : installed run b
    · exact Or.inl (B.total b chip ch hb hi hchip h1 h2)
    · exact Or.inr (B.notInstalled b chip ch hb hi)
  · right; exact ⟨v, by simp only [padPosition, padCompose, hv]⟩

theorem padPosition_noPanic (run b chip ch : Nat) (hb : b < padwingBoards.length)
    (hchip : chip < 4) (h1 : 1 ≤ ch) (h2 : ch ≤ 72) : NoPanic (padPosition run b chip ch) := by
  rcases padPosition_cases run b chip ch hb hchip h1 h2 with ⟨p, _, _, e⟩ | ⟨v, e⟩
  · rw [e]; exact noPanic_ok _
  · rw [e]; exact noPanic_err _

theorem padPosition_ok_lt (run b chip ch : Nat) (pos : Nat × Nat) (hb : b < padwingBoards.length)
    (hchip : chip < 4) (h1 : 1 ≤ ch) (h2 : ch ≤ 72) (h : padPosition run b chip ch = .ok pos) :
    pos.1 < 32 ∧ pos.2 < 576 := by
  rcases padPosition_cases run b chip ch hb hchip h1 h2 with ⟨p, a, c, e⟩ | ⟨v, e⟩
  · rw [e] at h; cases h; exact ⟨a, c⟩
  · rw [e] at h; cases h

end AlphaG.Event
