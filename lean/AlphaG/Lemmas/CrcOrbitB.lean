import AlphaG.Lemmas.CrcOrbitDef
/-
Segments 4..7 of the orbit of 1 under the zero-input map: each is one kernel
evaluation of 32800 register steps (`decide +kernel`). The junction states
are literals checked by the kernel (generated once with a script; a wrong literal fails).
-/
namespace AlphaG.Crc

theorem orbit_seg4 : walk 2836118092 32800 = some 4241646790 := by decide +kernel
theorem orbit_seg5 : walk 4241646790 32800 = some 4286305882 := by decide +kernel
theorem orbit_seg6 : walk 4286305882 32800 = some 3516266544 := by decide +kernel
theorem orbit_seg7 : walk 3516266544 32800 = some 2712195742 := by decide +kernel

end AlphaG.Crc
