import AlphaG.Lemmas.CrcOrbitDef
/-
Segments 4..7 of the orbit of POLY under the zero-input map: each is one kernel
evaluation of 32800 register steps (`decide +kernel`; no `native_decide`). The junction states
are literals checked by the kernel (generated once with a script; a wrong literal fails).
-/
namespace AlphaG.Crc

theorem orbit_seg4 : walk 1418059046 32800 = some 2120823395 := by decide +kernel
theorem orbit_seg5 : walk 2120823395 32800 = some 2143152941 := by decide +kernel
theorem orbit_seg6 : walk 2143152941 32800 = some 1758133272 := by decide +kernel
theorem orbit_seg7 : walk 1758133272 32800 = some 1356097871 := by decide +kernel

end AlphaG.Crc
