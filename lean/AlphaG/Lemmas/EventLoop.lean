import AlphaG.Lemmas.EventPad
/-
Structural lemmas about the two loops of `try_from_banks` (used by the C10 rejection theorems,
`assembly_ignores` and C11).
-/
namespace AlphaG.Event
open AlphaG AlphaG.Generated AlphaG.Maps

variable {α : Type} (ops : Ops α)

theorem bankLoop_append (run : Nat) : ∀ (l₁ l₂ : List Bank) (st : St α),
    bankLoop ops run (l₁ ++ l₂) st =
      (match bankLoop ops run l₁ st with
       | .ok s => bankLoop ops run l₂ s
       | .err e => .err e
       | .panic s => .panic s)
  | [], l₂, st => by simp [bankLoop]
  | b :: l₁, l₂, st => by
    simp only [List.cons_append, bankLoop]
    cases h : bankStep ops run b st with
    | ok s => simp only []; exact bankLoop_append run l₁ l₂ s
    | err e => rfl
    | panic s => rfl

/-- A successful first loop, cut at one bank. -/
theorem bankLoop_split {run : Nat} {pre post : List Bank} {b : Bank} {st st' : St α}
    (h : bankLoop ops run (pre ++ b :: post) st = .ok st') :
    ∃ s1 s2, bankLoop ops run pre st = .ok s1 ∧ bankStep ops run b s1 = .ok s2
      ∧ bankLoop ops run post s2 = .ok st' := by
  rw [bankLoop_append] at h
  cases h1 : bankLoop ops run pre st with
  | ok s1 =>
    rw [h1] at h
    simp only [] at h
    obtain ⟨s2, h2, h3⟩ := bankLoop_cons_ok ops h
    exact ⟨s1, s2, rfl, h2, h3⟩
  | err e => rw [h1] at h; cases h
  | panic s => rw [h1] at h; cases h

theorem bankLoop_ok_mem {run : Nat} {banks : List Bank} {st st' : St α}
    (h : bankLoop ops run banks st = .ok st') (b : Bank) (hb : b ∈ banks) :
    ∃ s1 s2, bankStep ops run b s1 = .ok s2 := by
  obtain ⟨pre, post, rfl⟩ := List.append_of_mem hb
  obtain ⟨s1, s2, _, h2, _⟩ := bankLoop_split ops h
  exact ⟨s1, s2, h2⟩

/-! ### `wire_bank_names` only grows -/

theorem bankStep_names {run : Nat} {b : Bank} {st st' : St α}
    (h : bankStep ops run b st = .ok st') : ∀ x, x ∈ st.wireNames → x ∈ st'.wireNames := by
  intro x hx
  obtain ⟨nm, _, hcase⟩ := bankStep_ok ops h
  rcases hcase with ⟨_, hb⟩ | ⟨_, hb⟩ | ⟨_, hb⟩ | ⟨_, _, _, hb⟩
  · obtain ⟨p, _, hpk⟩ := wireBank_ok ops hb
    obtain ⟨ch, _, _, _, hwf⟩ := wirePacket_ok ops hpk
    have hn : x ∈ (st.named nm).wireNames := by
      simp only [St.named, List.mem_append]; exact Or.inl hx
    rcases hwf with ⟨_, hst⟩ | ⟨_, hstore⟩
    · rw [hst]; exact hn
    · obtain ⟨w, bl, g, d, _, _, _, _, _, _, hst⟩ := wireStore_ok ops hstore
      rw [hst]; split <;> exact hn
  · obtain ⟨c, _, _, hst⟩ := padwingBank_ok hb
    rw [hst]; exact hx
  · obtain ⟨p, _, _, hst⟩ := trgBank_ok hb
    rw [hst]; exact hx
  · rw [hb]; exact hx

theorem bankLoop_names {run : Nat} : ∀ (banks : List Bank) (st st' : St α),
    bankLoop ops run banks st = .ok st' → ∀ x, x ∈ st.wireNames → x ∈ st'.wireNames
  | [], st, st', h, x, hx => by
    simp only [bankLoop, ok_eq_ok] at h; subst h; exact hx
  | b :: bs, st, st', h, x, hx => by
    obtain ⟨s1, h1, h2⟩ := bankLoop_cons_ok ops h
    exact bankLoop_names bs s1 st' h2 x (bankStep_names ops h1 x hx)

/-- After a successful anode-wire bank its name is recorded. -/
theorem wireBank_records {run : Nat} {nm : BankName.Name} {data : List UInt8} {st st' : St α}
    (h : wireBank ops run nm data st = .ok st') : (nm.board, nm.channel) ∈ st'.wireNames := by
  obtain ⟨p, _, hpk⟩ := wireBank_ok ops h
  obtain ⟨ch, _, _, _, hwf⟩ := wirePacket_ok ops hpk
  have hn : (nm.board, nm.channel) ∈ (st.named nm).wireNames := by
    simp [St.named]
  rcases hwf with ⟨_, hst⟩ | ⟨_, hstore⟩
  · rw [hst]; exact hn
  · obtain ⟨w, bl, g, d, _, _, _, _, _, _, hst⟩ := wireStore_ok ops hstore
    rw [hst]; split <;> exact hn

/-! ### Second loop: every group was reassembled, every sent pad channel stored -/

theorem groupLoop_ok_mem {run : Nat} : ∀ (gs : List Group) (pad pad' : Array (Option (List α))),
    groupLoop ops run gs pad = .ok pad' → ∀ g ∈ gs, ∃ p pad1 pad2,
      Pwb.reassemble g.2 = .ok p ∧ some (packetBoard p) = g.1.1
      ∧ Chunk.afterOfNat p.afterId = g.1.2
      ∧ channelLoop ops run (keyRow g.1) (keyChip g.1) p p.channelsSent pad1 = .ok pad2
  | [], _, _, _, g, hg => by cases hg
  | g0 :: gs, pad, pad', h, g, hg => by
    unfold groupLoop at h
    split at h
    · rename_i pad1 h1
      rcases List.mem_cons.1 hg with e | hr
      · subst e
        obtain ⟨p, hp, hk1, hk2, hcl⟩ := groupStep_ok ops h1
        exact ⟨p, pad, pad1, hp, hk1, hk2, hcl⟩
      · exact groupLoop_ok_mem gs pad1 pad' h g hr
    · cases h
    · cases h

theorem channelLoop_ok_mem {run board chip : Nat} {p : Pwb.PwbPacket} :
    ∀ (cs : List Pwb.ChannelId) (pad pad' : Array (Option (List α))),
    channelLoop ops run board chip p cs pad = .ok pad' → ∀ n, Pwb.ChannelId.pad n ∈ cs →
    ∃ wf pad1 pad2, Pwb.waveformAt p (.pad n) = .ok (some wf)
      ∧ padStore ops run board chip n wf pad1 = .ok pad2
  | [], _, _, _, n, hn => by cases hn
  | .reset k :: cs, pad, pad', h, n, hn => by
    unfold channelLoop at h
    rcases List.mem_cons.1 hn with e | hr
    · cases e
    · exact channelLoop_ok_mem cs pad pad' h n hr
  | .fpn k :: cs, pad, pad', h, n, hn => by
    unfold channelLoop at h
    rcases List.mem_cons.1 hn with e | hr
    · cases e
    · exact channelLoop_ok_mem cs pad pad' h n hr
  | .pad m :: cs, pad, pad', h, n, hn => by
    unfold channelLoop at h
    split at h
    · cases h
    · cases h
    · cases h
    · rename_i wf hwf
      split at h
      · rename_i pad1 h1
        rcases List.mem_cons.1 hn with e | hr
        · cases e; exact ⟨wf, pad, pad1, hwf, h1⟩
        · exact channelLoop_ok_mem cs pad1 pad' h n hr
      · cases h
      · cases h

end AlphaG.Event
