import AlphaG.Model.Pwb
import AlphaG.Lemmas.Bytes
import AlphaG.Lemmas.PwbMask
import AlphaG.Lemmas.PwbBlocks
/-
Lemmas for `waveform_at`: `position`, the `i16` view of the data section, offsets. Core only.
-/
namespace AlphaG.Pwb

/-! ### `position?` -/

theorem position?_eq_none_iff (c : ChannelId) : ∀ l : List ChannelId, position? c l = none ↔ c ∉ l
  | [] => by simp [position?]
  | x :: xs => by
    by_cases h : x = c
    · simp [position?, h]
    · have : ¬c = x := fun e => h e.symm
      simp [position?, h, this, position?_eq_none_iff c xs]

theorem position?_getElem : ∀ (l : List ChannelId), l.Nodup → ∀ (k : Nat) (hk : k < l.length),
    position? l[k] l = some k
  | [], _, k, hk => by simp at hk
  | x :: xs, hn, 0, _ => by simp [position?]
  | x :: xs, hn, k + 1, hk => by
    have hk' : k < xs.length := by simpa using hk
    have hx : ¬x = xs[k] := by
      intro e
      have := (List.nodup_cons.1 hn).1
      exact this (e ▸ List.getElem_mem hk')
    simp only [List.getElem_cons_succ, position?, hx, if_false,
      position?_getElem xs (List.nodup_cons.1 hn).2 k hk', Option.map_some]

theorem chansOf_nodup : ∀ (idx : List Nat), (∀ i ∈ idx, i < 79) → idx.Nodup → (chansOf idx).Nodup
  | [], _, _ => by simp [chansOf]
  | i :: idx, h, hn => by
    obtain ⟨_, c, hc, _, _⟩ := readout_left_inv i (h i List.mem_cons_self)
    have ih := chansOf_nodup idx (fun j hj => h j (List.mem_cons_of_mem _ hj))
      (List.nodup_cons.1 hn).2
    unfold chansOf at ih ⊢
    rw [List.filterMap_cons, hc]
    refine List.nodup_cons.2 ⟨?_, ih⟩
    intro hm
    obtain ⟨j, hj, hjc⟩ := List.mem_filterMap.1 hm
    have := readout_inj hc hjc
    have hij : i = j := by omega
    exact (List.nodup_cons.1 hn).1 (hij ▸ hj)

theorem setBits_nodup (m n : Nat) : (setBits m n).Nodup :=
  (setBits_pairwise m n).imp (fun h => Nat.ne_of_lt h)

/-! ### `i16s` -/

theorem byteAt_cons_succ (x : UInt8) (l : List UInt8) (i : Nat) :
    byteAt (x :: l) (i + 1) = byteAt l i := by
  simp [byteAt]

theorem leAt_cons_succ (x : UInt8) (l : List UInt8) : ∀ (k off : Nat),
    leAt (x :: l) (off + 1) k = leAt l off k
  | 0, _ => rfl
  | k + 1, off => by
    simp only [leAt, byteAt_cons_succ, leAt_cons_succ x l k (off + 1)]

theorem leAt_drop (l : List UInt8) : ∀ (m off k : Nat), leAt (l.drop m) off k = leAt l (m + off) k
  | 0, off, k => by simp
  | m + 1, off, k => by
    cases l with
    | nil =>
      have h0 : ∀ (k off : Nat), leAt ([] : List UInt8) off k = 0 := by
        intro k; induction k with
        | zero => intro _; rfl
        | succ k ih => intro off; simp [leAt, ih, byteAt]
      simp [h0]
    | cons x l =>
      rw [List.drop_succ_cons, leAt_drop l m off k,
        show m + 1 + off = (m + off) + 1 by omega, leAt_cons_succ]

theorem i16s_take : ∀ (n : Nat) (l : List UInt8), 2 * n ≤ l.length →
    (i16s l).take n = (List.range n).map (fun j => toSigned 16 (leAt l (2 * j) 2))
  | 0, _, _ => by simp
  | n + 1, l, h => by
    match l, h with
    | lo :: hi :: rest, h =>
      have hr : 2 * n ≤ rest.length := by simp at h; omega
      rw [i16s, List.take_succ_cons, i16s_take n rest hr, List.range_succ_eq_map, List.map_cons,
        List.map_map]
      congr 1

theorem i16s_drop : ∀ (a : Nat) (l : List UInt8), (i16s l).drop a = i16s (l.drop (2 * a))
  | 0, l => by simp
  | a + 1, l => by
    match l with
    | [] => simp [i16s]
    | [x] =>
      rw [show 2 * (a + 1) = (2 * a + 1) + 1 by omega, List.drop_succ_cons]
      simp [i16s]
    | lo :: hi :: rest =>
      rw [i16s, List.drop_succ_cons, i16s_drop a rest, show 2 * (a + 1) = (2 * a + 1) + 1 by omega,
        List.drop_succ_cons, List.drop_succ_cons]

theorem i16s_length : ∀ (l : List UInt8), (i16s l).length = l.length / 2
  | [] => rfl
  | [x] => by simp [i16s]
  | lo :: hi :: rest => by
    rw [i16s, List.length_cons, i16s_length rest]; simp only [List.length_cons]; omega

/-- A window of the `i16` data, in terms of the bytes of the original slice. -/
theorem i16s_window (b : List UInt8) (m a n : Nat) (h : m + 2 * (a + n) ≤ b.length) :
    ((i16s (b.drop m)).drop a).take n
      = (List.range n).map (fun j => toSigned 16 (leAt b (m + 2 * a + 2 * j) 2)) := by
  rw [i16s_drop, i16s_take n _ (by simp only [List.length_drop]; omega)]
  apply List.map_congr_left
  intro j _
  rw [List.drop_drop, leAt_drop]

theorem bpc_eq_two_spc (req : Nat) : bpc req = 2 * spc req := by
  unfold bpc spc; split <;> omega

theorem spc_ge (req : Nat) : 2 + req ≤ spc req := by
  unfold spc; split <;> omega

end AlphaG.Pwb
