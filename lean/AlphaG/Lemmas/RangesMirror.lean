import AlphaG.Model.Matching
import AlphaG.Lemmas.DeconvField
/-
Mirror symmetry (`z ↦ −z`, pad row `r ↦ 575 − r`) of `pad_hits_at_t` and of
`MainEvent::avalanches`, over the exact carrier `fieldOps top` (a linearly ordered field).

The only property of `ln` used is `ln (a / b) = − ln (b / a)` for positive `a`, `b` (`hlog`); the
only property of `TpcPadRow::z` used is `z (575 − r) = − z r` (`hrow`, derived in `rowZ_mirror`
from `PAD_PITCH_Z = L / 576`, `DETECTOR_HALF_LENGTH = L / 2`).

Tie case. The avalanche theorem excludes equal pad-hit amplitudes within one `(column, t)`:
`sort_unstable_by` compares amplitudes only, so with a tie the order of the tied hits after the
sort depends on their order before it (which the mirror reverses); the tied pad hits may then be
zipped with different wire hits in the mirrored event. With pairwise distinct amplitudes the
descending order is unique and the unstable sort is irrelevant.
-/
namespace AlphaG.Matching
open AlphaG.Deconv AlphaG.Ranges
open Lean Grind Std

section
variable {F : Type} [Field F] [LE F] [LT F] [LawfulOrderLT F] [IsLinearOrder F] [OrderedRing F]
  [DecidableLT F] [DecidableLE F]
variable (top : F) (g : Geo F)

/-! ### 1. The hit test and the hit position under exchange of `first` and `last` -/

/-- `first > 0 && last > 0 && middle > first && middle > last` is symmetric in `first`, `last`
(any carrier). -/
theorem isPeak_swap {α : Type} (o : Ops α) (first middle last : α) :
    isPeak o first middle last = isPeak o last middle first := by
  simp only [isPeak]
  cases o.lt o.zero first <;> cases o.lt o.zero last <;> cases o.lt first middle <;>
    cases o.lt last middle <;> rfl

theorem sigmaSq_swap (first middle last : F) :
    sigmaSq (fieldOps top) g first middle last = sigmaSq (fieldOps top) g last middle first := by
  simp only [sigmaSq, fieldOps_mul, fieldOps_div]
  rw [CommSemiring.mul_comm first last]

/-- `TpcPadRow::z` is odd about the mid-plane, from the constants of the code:
`row as f64` is the cast, `0.5 + 0.5 = 1`, `DETECTOR_HALF_LENGTH = 288 · PAD_PITCH_Z`. -/
theorem rowZ_mirror (hofNat : ∀ n : Nat, g.ofNat n = (n : F)) (hhalf : g.half + g.half = 1)
    (hlen : g.halfLength = 288 * g.width) (r : Nat) (hr : r < 576) :
    rowZ (fieldOps top) g (575 - r) = - rowZ (fieldOps top) g r := by
  simp only [rowZ, fieldOps_add, fieldOps_sub, fieldOps_mul, hofNat, hlen]
  have h1 : ((575 - r : Nat) : F) + (r : F) = 575 := by
    rw [← Semiring.natCast_add, Nat.sub_add_cancel (by omega), Semiring.natCast_eq_ofNat]
  grind

/-- Mirror of one hit: the triple `(last, middle, first)` whose last element sits at row
`577 − row` (rows `575 − row, 576 − row, 577 − row`, i.e. the mirror images of rows
`row, row − 1, row − 2`) gives exactly the negated `z`. -/
theorem hitZ_mirror
    (hlog : ∀ a b : F, 0 < a → 0 < b → g.log (a / b) = - g.log (b / a))
    (hrow : ∀ r, r < 576 → rowZ (fieldOps top) g (575 - r) = - rowZ (fieldOps top) g r)
    (row : Nat) (first middle last : F) (hf : 0 < first) (hl : 0 < last)
    (h1 : 1 ≤ row) (h2 : row ≤ 576) :
    hitZ (fieldOps top) g (577 - row) last middle first
      = - hitZ (fieldOps top) g row first middle last := by
  simp only [hitZ, sigmaSq_swap top g last middle first, fieldOps_add, fieldOps_mul, fieldOps_div]
  have e : 577 - row - 1 = 575 - (row - 1) := by omega
  rw [e, hrow (row - 1) (by omega), hlog first last hf hl]
  grind

end
end AlphaG.Matching
