import AlphaG.Model.Matching
import AlphaG.Lemmas.DeconvField
/-
Mirror symmetry (`z ↦ −z`, pad row `r ↦ 575 − r`) of `pad_hits_at_t` and of
`MainEvent::avalanches`, over the exact carrier `fieldOps top` (a linearly ordered field).

The only property of `ln` used is `ln (a / b) = − ln (b / a)` for positive `a`, `b` (`hlog`); the
only property of `TpcPadRow::z` used is `z (575 − r) = − z r` (`hrow`, derived in `rowZ_mirror`
from `PAD_PITCH_Z = L / 576`, `DETECTOR_HALF_LENGTH = L / 2`).

Tie case. The avalanche theorem excludes equal pad-hit amplitudes within one `(column, t)`:
`sort_unstable_by` compares amplitudes only, so with a tie the order of the tied hits after the
sort depends on their order before it (which the mirror reverses); the tied pad hits may then be
zipped with different wire hits in the mirrored event. With pairwise distinct amplitudes the
descending order is unique and the unstable sort is irrelevant.
-/
namespace AlphaG.Matching
open AlphaG.Deconv AlphaG.Ranges
open Lean Grind Std

section
variable {F : Type} [Field F] [LE F] [LT F] [LawfulOrderLT F] [IsLinearOrder F] [OrderedRing F]
  [DecidableLT F] [DecidableLE F]
variable (top : F) (g : Geo F)

/-! ### 1. The hit test and the hit position under exchange of `first` and `last` -/

/-- `first > 0 && last > 0 && middle > first && middle > last` is symmetric in `first`, `last`
(any carrier). -/
theorem isPeak_swap {α : Type} (o : Ops α) (first middle last : α) :
    isPeak o first middle last = isPeak o last middle first := by
  simp only [isPeak]
  cases o.lt o.zero first <;> cases o.lt o.zero last <;> cases o.lt first middle <;>
    cases o.lt last middle <;> rfl

omit [LawfulOrderLT F] [IsLinearOrder F] [OrderedRing F] in
theorem sigmaSq_swap (first middle last : F) :
    sigmaSq (fieldOps top) g first middle last = sigmaSq (fieldOps top) g last middle first := by
  simp only [sigmaSq, fieldOps_mul, fieldOps_div]
  rw [CommSemiring.mul_comm first last]

attribute [local instance] Semiring.natCast

/-- `TpcPadRow::z` is odd about the mid-plane, from the constants of the code:
`row as f64` is the cast, `0.5 + 0.5 = 1`, `DETECTOR_HALF_LENGTH = 288 · PAD_PITCH_Z`. -/
theorem rowZ_mirror (hofNat : ∀ n : Nat, g.ofNat n = (n : F)) (hhalf : g.half + g.half = 1)
    (hlen : g.halfLength = 288 * g.width) (r : Nat) (hr : r < 576) :
    rowZ (fieldOps top) g (575 - r) = - rowZ (fieldOps top) g r := by
  simp only [rowZ, fieldOps_add, fieldOps_sub, fieldOps_mul, hofNat, hlen]
  have h1 : ((575 - r : Nat) : F) + (r : F) = 575 := by
    rw [← Semiring.natCast_add, Nat.sub_add_cancel (by omega)]
    exact (Semiring.ofNat_eq_natCast 575).symm
  grind

omit [LawfulOrderLT F] [IsLinearOrder F] [OrderedRing F] in
/-- `hitZ_mirror` for a column of `n` rows (`n = 576` in the code). -/
theorem hitZ_mirror_gen (n : Nat)
    (hlog : ∀ a b : F, 0 < a → 0 < b → g.log (a / b) = - g.log (b / a))
    (hrow : ∀ r, r < n → rowZ (fieldOps top) g (n - 1 - r) = - rowZ (fieldOps top) g r)
    (row : Nat) (first middle last : F) (hf : 0 < first) (hl : 0 < last)
    (h1 : 1 ≤ row) (h2 : row ≤ n) :
    hitZ (fieldOps top) g (n + 1 - row) last middle first
      = - hitZ (fieldOps top) g row first middle last := by
  simp only [hitZ, sigmaSq_swap top g last middle first, fieldOps_add, fieldOps_mul, fieldOps_div]
  have e : n + 1 - row - 1 = n - 1 - (row - 1) := by omega
  rw [e, hrow (row - 1) (by omega), hlog first last hf hl]
  grind

omit [LawfulOrderLT F] [IsLinearOrder F] [OrderedRing F] in
/-- Mirror of one hit: the triple `(last, middle, first)` whose last element sits at row
`577 − row` (rows `575 − row, 576 − row, 577 − row`, i.e. the mirror images of rows
`row, row − 1, row − 2`) gives exactly the negated `z`. -/
theorem hitZ_mirror
    (hlog : ∀ a b : F, 0 < a → 0 < b → g.log (a / b) = - g.log (b / a))
    (hrow : ∀ r, r < 576 → rowZ (fieldOps top) g (575 - r) = - rowZ (fieldOps top) g r)
    (row : Nat) (first middle last : F) (hf : 0 < first) (hl : 0 < last)
    (h1 : 1 ≤ row) (h2 : row ≤ 576) :
    hitZ (fieldOps top) g (577 - row) last middle first
      = - hitZ (fieldOps top) g row first middle last :=
  hitZ_mirror_gen top g 576 hlog hrow row first middle last hf hl h1 h2

end

/-! ### 2. `pad_hits_at_t` without the sliding window, and its mirror image -/

section
variable {α : Type} (o : Ops α) (g : Geo α)

/-- The hit (if any) of the triple `(first, middle, last)` whose `last` sits at `row`. -/
def hitAt (row : Nat) (first middle last : α) : Option (PadHit α) :=
  if isPeak o first middle last then some ⟨hitZ o g row first middle last, middle⟩ else none

theorem padHitsGo_eq (t : Nat) (rest : List (List α)) (row : Nat) (first middle : α) :
    padHitsGo o g t rest row first middle
      = (List.range rest.length).filterMap fun i =>
          hitAt o g (row + i)
            ((first :: middle :: rest.map (sampleAt o · t)).getD i o.zero)
            ((first :: middle :: rest.map (sampleAt o · t)).getD (i + 1) o.zero)
            ((first :: middle :: rest.map (sampleAt o · t)).getD (i + 2) o.zero) := by
  induction rest generalizing row first middle with
  | nil => simp [padHitsGo]
  | cons inp rest ih =>
    rw [padHitsGo, ih, List.length_cons, List.range_succ_eq_map, List.filterMap_cons,
      List.filterMap_map]
    simp only [hitAt, List.map_cons, List.getD_cons_zero, List.getD_cons_succ, Nat.add_zero,
      Function.comp_def]
    have e : ∀ i, row + 1 + i = row + Nat.succ i := by intro i; omega
    simp only [e]
    split <;> simp

/-- `pad_hits_at_t` as a filter over the row index `i` of `first`: with
`x = column.map (sample at t)`, the triple `(x i, x (i+1), x (i+2))` is tested and the hit is
placed relative to row `i + 1` (`hitZ` takes the row of `last`). -/
theorem padHitsAtT_eq (column : List (List α)) (t : Nat) :
    padHitsAtT o g column t
      = (List.range (column.length - 2)).filterMap fun i =>
          hitAt o g (i + 2)
            ((column.map (sampleAt o · t)).getD i o.zero)
            ((column.map (sampleAt o · t)).getD (i + 1) o.zero)
            ((column.map (sampleAt o · t)).getD (i + 2) o.zero) := by
  match column with
  | [] => simp [padHitsAtT]
  | [_] => simp [padHitsAtT]
  | r0 :: r1 :: rest =>
    have e : rest.length + 1 + 1 - 2 = rest.length := by omega
    simp only [padHitsAtT, padHitsGo_eq, List.length_cons, List.map_cons, e, Nat.add_comm 2]

/-- `(column.map sample).getD i 0` is the sample of row `i` (an absent row reads `0.0`, like an
empty input). -/
theorem getD_map_sampleAt (column : List (List α)) (t i : Nat) :
    (column.map (sampleAt o · t)).getD i o.zero = sampleAt o (column.getD i []) t := by
  simp only [List.getD_eq_getElem?_getD, List.getElem?_map]
  cases column[i]? <;> simp [sampleAt]

/-- The form with `x i = sample of row i`. -/
theorem padHitsAtT_eq' (column : List (List α)) (t : Nat) :
    padHitsAtT o g column t
      = (List.range (column.length - 2)).filterMap fun i =>
          hitAt o g (i + 2) (sampleAt o (column.getD i []) t)
            (sampleAt o (column.getD (i + 1) []) t) (sampleAt o (column.getD (i + 2) []) t) := by
  simp only [padHitsAtT_eq, getD_map_sampleAt]

end

/-- Reading a range backwards. -/
theorem filterMap_range_mirror {β : Type} (f : Nat → Option β) (m : Nat) :
    (List.range m).filterMap (fun i => f (m - 1 - i)) = ((List.range m).filterMap f).reverse := by
  induction m with
  | zero => simp
  | succ m ih =>
    have e : ((fun i => f (m + 1 - 1 - i)) ∘ Nat.succ) = fun i => f (m - 1 - i) := by
      funext i
      simp only [Function.comp_def]
      congr 1
      omega
    conv => lhs; rw [List.range_succ_eq_map, List.filterMap_cons, List.filterMap_map, e]
    conv => rhs; rw [List.range_succ, List.filterMap_append, List.reverse_append, ← ih]
    simp only [Nat.add_sub_cancel, Nat.sub_zero]
    cases hfm : f m <;> simp [hfm]

theorem filterMap_congr' {β γ : Type} (f f' : β → Option γ) (l : List β)
    (h : ∀ x ∈ l, f x = f' x) : l.filterMap f = l.filterMap f' := by
  induction l with
  | nil => rfl
  | cons a l ih =>
    rw [List.filterMap_cons, List.filterMap_cons, h a List.mem_cons_self,
      ih fun x hx => h x (List.mem_cons_of_mem a hx)]

theorem map_range_mirror {β : Type} (f : Nat → β) (m : Nat) :
    (List.range m).map (fun i => f (m - 1 - i)) = ((List.range m).map f).reverse := by
  have := filterMap_range_mirror (fun i => some (f i)) m
  simpa [List.filterMap_eq_map'] using this

theorem getD_reverse_lt {β : Type} (l : List β) (d : β) (i : Nat) (h : i < l.length) :
    l.reverse.getD i d = l.getD (l.length - 1 - i) d := by
  simp [List.getD_eq_getElem?_getD, List.getElem?_reverse h]

section
variable {F : Type} [Field F] [LE F] [LT F] [LawfulOrderLT F] [IsLinearOrder F] [OrderedRing F]
  [DecidableLT F] [DecidableLE F]
variable (top : F) (g : Geo F)

/-- `z ↦ −z` on a pad hit. -/
def negZ (h : PadHit F) : PadHit F := ⟨-h.z, h.amplitude⟩

omit [LawfulOrderLT F] [IsLinearOrder F] [OrderedRing F] in
theorem hitAt_mirror (n : Nat)
    (hlog : ∀ a b : F, 0 < a → 0 < b → g.log (a / b) = - g.log (b / a))
    (hrow : ∀ r, r < n → rowZ (fieldOps top) g (n - 1 - r) = - rowZ (fieldOps top) g r)
    (row : Nat) (first middle last : F) (h1 : 1 ≤ row) (h2 : row ≤ n) :
    hitAt (fieldOps top) g (n + 1 - row) last middle first
      = (hitAt (fieldOps top) g row first middle last).map negZ := by
  simp only [hitAt, isPeak_swap (fieldOps top) last middle first]
  by_cases hp : isPeak (fieldOps top) first middle last = true
  · have hpos : 0 < first ∧ 0 < last := by
      simp only [isPeak, fieldOps_lt, fieldOps_zero, Bool.and_eq_true, decide_eq_true_eq] at hp
      exact ⟨hp.1.1.1, hp.1.1.2⟩
    simp [hp, negZ, hitZ_mirror_gen top g n hlog hrow row first middle last hpos.1 hpos.2 h1 h2]
  · simp [hp]

omit [LawfulOrderLT F] [IsLinearOrder F] [OrderedRing F] in
/-- `padHits_mirror` for a column of any length `n`. -/
theorem padHits_mirror_gen
    (hlog : ∀ a b : F, 0 < a → 0 < b → g.log (a / b) = - g.log (b / a))
    (column : List (List F))
    (hrow : ∀ r, r < column.length →
      rowZ (fieldOps top) g (column.length - 1 - r) = - rowZ (fieldOps top) g r)
    (t : Nat) :
    padHitsAtT (fieldOps top) g column.reverse t
      = ((padHitsAtT (fieldOps top) g column t).map negZ).reverse := by
  rw [padHitsAtT_eq, padHitsAtT_eq, ← List.map_reverse, ← filterMap_range_mirror,
    List.map_filterMap, List.length_reverse]
  apply filterMap_congr'
  intro i hi
  rw [List.mem_range] at hi
  have hn : (List.map (fun x => sampleAt (fieldOps top) x t) column).length = column.length :=
    List.length_map _
  rw [List.map_reverse, getD_reverse_lt _ _ i (by omega), getD_reverse_lt _ _ (i + 1) (by omega),
    getD_reverse_lt _ _ (i + 2) (by omega), hn]
  have e0 : column.length - 1 - (i + 2) = column.length - 2 - 1 - i := by omega
  have e1 : column.length - 1 - (i + 1) = column.length - 2 - 1 - i + 1 := by omega
  have e2 : column.length - 1 - i = column.length - 2 - 1 - i + 2 := by omega
  have e3 : i + 2 = column.length + 1 - (column.length - 2 - 1 - i + 2) := by omega
  rw [e0, e1, e2, e3]
  exact hitAt_mirror top g column.length hlog hrow _ _ _ _ (by omega) (by omega)

omit [LawfulOrderLT F] [IsLinearOrder F] [OrderedRing F] in
/-- **Mirror symmetry of `pad_hits_at_t`.** The column read backwards (row `r ↦ 575 − r`) yields
the same hits in reverse order, with the same amplitudes and `z` negated exactly. -/
theorem padHits_mirror
    (hlog : ∀ a b : F, 0 < a → 0 < b → g.log (a / b) = - g.log (b / a))
    (hrow : ∀ r, r < 576 → rowZ (fieldOps top) g (575 - r) = - rowZ (fieldOps top) g r)
    (column : List (List F)) (hlen : column.length = 576) (t : Nat) :
    padHitsAtT (fieldOps top) g column.reverse t
      = ((padHitsAtT (fieldOps top) g column t).map
          fun h => (⟨-h.z, h.amplitude⟩ : PadHit F)).reverse :=
  padHits_mirror_gen top g hlog column (by rw [hlen]; exact hrow) t

end

/-! ### 3. The pad inputs of the mirrored event -/

theorem padInputs_mirror {α : Type} (P : Params α) (ev : Event α) (c : Nat) :
    padInputs P (mirror ev) c = (padInputs P ev c).reverse := by
  simp only [padInputs, mirror]
  generalize nRows = n
  exact map_range_mirror (fun row => match ev.pads c row with
    | some signal => P.padDeconv signal
    | none => []) n

theorem padInputs_length {α : Type} (P : Params α) (ev : Event α) (c : Nat) :
    (padInputs P ev c).length = 576 := by
  simp [padInputs, nRows]

theorem assignments_mirror {α : Type} (P : Params α) (ev : Event α) :
    assignments P (mirror ev) = assignments P ev := rfl

/-! ### 4. A strictly descending sort does not depend on the input order -/

theorem filterMap_getElem?_range {β : Type} (l : List β) :
    (List.range l.length).filterMap (fun i => l[i]?) = l := by
  induction l with
  | nil => rfl
  | cons a l ih =>
    rw [List.length_cons, List.range_succ_eq_map, List.filterMap_cons, List.filterMap_map]
    simpa [Function.comp_def] using ih

theorem applyPerm_perm {β : Type} (p : List Nat) (l : List β)
    (hp : p.Perm (List.range l.length)) : (applyPerm p l).Perm l := by
  have := hp.filterMap (fun i => l[i]?)
  rwa [filterMap_getElem?_range] at this

theorem applyPerm_map_m {β γ : Type} (f : β → γ) (p : List Nat) (l : List β) :
    applyPerm p (l.map f) = (applyPerm p l).map f := by
  simp only [applyPerm, List.map_filterMap, List.getElem?_map]

section
variable {F : Type} [Field F] [LE F] [LT F] [LawfulOrderLT F] [IsLinearOrder F] [OrderedRing F]
  [DecidableLT F] [DecidableLE F]
variable (top : F) (g : Geo F) (s : Sorter F)

omit [LawfulOrderLT F] [IsLinearOrder F] [OrderedRing F] in
theorem sortPadHits_perm (hs : IsDescSort (fieldOps top) s) (l : List (PadHit F)) :
    (sortPadHits s l).Perm l := by
  apply applyPerm_perm
  have := (hs (l.map (·.amplitude))).1
  rwa [List.length_map] at this

/-- The sorted hits are strictly descending in amplitude when the amplitudes are distinct. -/
theorem sortPadHits_strict (hs : IsDescSort (fieldOps top) s) (l : List (PadHit F))
    (hnd : (l.map (·.amplitude)).Nodup) :
    (sortPadHits s l).Pairwise (fun a b => b.amplitude < a.amplitude) := by
  have h1 := (hs (l.map (·.amplitude))).2
  rw [applyPerm_map_m] at h1
  have h2 : ((sortPadHits s l).map (·.amplitude)).Nodup :=
    ((sortPadHits_perm top s hs l).map (·.amplitude)).symm.nodup hnd
  have h3 := List.Pairwise.and h1 h2
  rw [List.pairwise_map] at h3
  refine h3.imp ?_
  intro a b hab
  simp only [fieldOps_lt, decide_eq_false_iff_not] at hab
  grind

/-- Two descending sorts of permutations of the same hits with pairwise distinct amplitudes
agree: in particular the order of the input does not matter. -/
theorem sort_unique (hs : IsDescSort (fieldOps top) s) (l : List (PadHit F))
    (hnd : (l.map (·.amplitude)).Nodup) :
    sortPadHits s l.reverse = sortPadHits s l := by
  have hnd' : (l.reverse.map (·.amplitude)).Nodup := by
    rw [List.map_reverse]
    exact (List.reverse_perm _).symm.nodup hnd
  refine List.Perm.eq_of_pairwise (le := fun a b : PadHit F => b.amplitude < a.amplitude) ?_
    (sortPadHits_strict top s hs _ hnd') (sortPadHits_strict top s hs _ hnd) ?_
  · intro a b _ _ h1 h2
    exact absurd h1 (by grind)
  · exact ((sortPadHits_perm top s hs _).trans (List.reverse_perm l)).trans
      (sortPadHits_perm top s hs l).symm

omit [LE F] [LT F] [LawfulOrderLT F] [IsLinearOrder F] [OrderedRing F] [DecidableLT F]
  [DecidableLE F] in
/-- The sort reads the amplitudes only. -/
theorem sortPadHits_map_negZ (l : List (PadHit F)) :
    sortPadHits s (l.map negZ) = (sortPadHits s l).map negZ := by
  have e : (l.map negZ).map (·.amplitude) = l.map (·.amplitude) := by
    rw [List.map_map]; rfl
  rw [sortPadHits, e, applyPerm_map_m]
  rfl

/-! ### 5. `match_column_inputs` and `MainEvent::avalanches` of the mirrored event -/

/-- `z ↦ −z` on an avalanche (`t`, wire, amplitudes unchanged). -/
def negZA (a : Avalanche F) : Avalanche F := { a with z := -a.z }

theorem matchAtT_mirror (hs : IsDescSort (fieldOps top) s)
    (hlog : ∀ a b : F, 0 < a → 0 < b → g.log (a / b) = - g.log (b / a))
    (indices : List Nat) (wireInputs column : List (List F))
    (hrow : ∀ r, r < column.length →
      rowZ (fieldOps top) g (column.length - 1 - r) = - rowZ (fieldOps top) g r)
    (t : Nat) (hnd : ((padHitsAtT (fieldOps top) g column t).map (·.amplitude)).Nodup) :
    matchAtT (fieldOps top) g s indices wireInputs column.reverse t
      = (matchAtT (fieldOps top) g s indices wireInputs column t).map negZA := by
  simp only [matchAtT]
  split
  · rfl
  · have hnd' : (((padHitsAtT (fieldOps top) g column t).map negZ).map (·.amplitude)).Nodup := by
      rw [List.map_map]; exact hnd
    rw [padHits_mirror_gen top g hlog column hrow t, sort_unique top s hs _ hnd',
      sortPadHits_map_negZ, List.zipWith_map_right, List.map_zipWith]
    rfl

theorem flatMap_congr_m {β γ : Type} (f f' : β → List γ) (l : List β)
    (h : ∀ x ∈ l, f x = f' x) : l.flatMap f = l.flatMap f' := by
  induction l with
  | nil => rfl
  | cons a l ih =>
    rw [List.flatMap_cons, List.flatMap_cons, h a List.mem_cons_self,
      ih fun x hx => h x (List.mem_cons_of_mem a hx)]

theorem matchColumn_mirror (hs : IsDescSort (fieldOps top) s)
    (hlog : ∀ a b : F, 0 < a → 0 < b → g.log (a / b) = - g.log (b / a))
    (indices : List Nat) (wireInputs column : List (List F))
    (hrow : ∀ r, r < column.length →
      rowZ (fieldOps top) g (column.length - 1 - r) = - rowZ (fieldOps top) g r)
    (hnd : ∀ t, ((padHitsAtT (fieldOps top) g column t).map (·.amplitude)).Nodup) :
    matchColumn (fieldOps top) g s indices wireInputs column.reverse
      = (matchColumn (fieldOps top) g s indices wireInputs column).map negZA := by
  simp only [matchColumn, List.map_flatMap]
  exact flatMap_congr_m _ _ _ fun t _ =>
    matchAtT_mirror top g s hs hlog indices wireInputs column hrow t (hnd t)

/-- **Mirror symmetry of `MainEvent::avalanches`.** If within every pad column and time bin the
pad-hit amplitudes are pairwise distinct, the event with the pad rows mirrored (`r ↦ 575 − r`)
reconstructs the same avalanches — same order, wires, times, amplitudes — with `z` negated. -/
theorem avalanches_mirror (hs : IsDescSort (fieldOps top) s)
    (hlog : ∀ a b : F, 0 < a → 0 < b → g.log (a / b) = - g.log (b / a))
    (hrow : ∀ r, r < 576 → rowZ (fieldOps top) g (575 - r) = - rowZ (fieldOps top) g r)
    (P : Params F) (ev : Event F)
    (hnd : ∀ c, c < 32 → ∀ t,
      ((padHitsAtT (fieldOps top) g (padInputs P ev c) t).map (·.amplitude)).Nodup) :
    avalanches (fieldOps top) g s P (mirror ev)
      = (avalanches (fieldOps top) g s P ev).map fun a => { a with z := -a.z } := by
  simp only [avalanches, assignments_mirror, padInputs_mirror, List.map_flatMap]
  apply flatMap_congr_m
  intro c hc
  have hc' : c < 32 := by
    simp only [padColumns, List.mem_filter, List.mem_range, nColumns] at hc
    exact hc.1
  exact matchColumn_mirror top g s hs hlog _ _ _
    (by rw [padInputs_length]; exact hrow) (hnd c hc')

/-! ### 6. When the hypotheses hold -/

/-- Every hit amplitude is a positive sample of the column (rows `1 … n − 2`), in row order. -/
theorem padHitsGo_amp_sublist (t : Nat) (rest : List (List F)) (row : Nat) (first middle : F) :
    List.Sublist ((padHitsGo (fieldOps top) g t rest row first middle).map (·.amplitude))
      ((middle :: rest.map (sampleAt (fieldOps top) · t)).filter fun v => decide (0 < v)) := by
  induction rest generalizing row first middle with
  | nil => simp [padHitsGo]
  | cons inp rest ih =>
    rw [padHitsGo, List.map_append, List.map_cons, List.filter_cons]
    have ih' := ih (row + 1) middle (sampleAt (fieldOps top) inp t)
    by_cases hp : isPeak (fieldOps top) first middle (sampleAt (fieldOps top) inp t) = true
    · have hm : 0 < middle := by
        simp only [isPeak, fieldOps_lt, fieldOps_zero, Bool.and_eq_true, decide_eq_true_eq] at hp
        grind
      simp only [hp, hm, if_true, decide_true, List.map_cons, List.map_nil, List.cons_append,
        List.nil_append]
      exact ih'.cons_cons _
    · simp only [hp, if_false, Bool.false_eq_true, List.map_nil, List.nil_append]
      split
      · exact ih'.cons _
      · exact ih'

theorem padHitsAtT_amp_sublist (column : List (List F)) (t : Nat) :
    List.Sublist ((padHitsAtT (fieldOps top) g column t).map (·.amplitude))
      ((column.map (sampleAt (fieldOps top) · t)).filter fun v => decide (0 < v)) := by
  match column with
  | [] => simp [padHitsAtT]
  | [_] => simp [padHitsAtT]
  | r0 :: r1 :: rest =>
    simp only [padHitsAtT, List.map_cons]
    refine (padHitsGo_amp_sublist top g t rest 2 _ _).trans ?_
    rw [List.filter_cons (x := sampleAt (fieldOps top) r0 t)]
    split
    · exact List.sublist_cons_self _ _
    · exact List.Sublist.refl _

/-- `avalanches_mirror` under a hypothesis on the data only: in every pad column and time bin
the positive deconvolved samples are pairwise distinct. -/
theorem avalanches_mirror_of_distinct_samples (hs : IsDescSort (fieldOps top) s)
    (hlog : ∀ a b : F, 0 < a → 0 < b → g.log (a / b) = - g.log (b / a))
    (hrow : ∀ r, r < 576 → rowZ (fieldOps top) g (575 - r) = - rowZ (fieldOps top) g r)
    (P : Params F) (ev : Event F)
    (hnd : ∀ c, c < 32 → ∀ t, (((padInputs P ev c).map (sampleAt (fieldOps top) · t)).filter
      fun v => decide (0 < v)).Nodup) :
    avalanches (fieldOps top) g s P (mirror ev)
      = (avalanches (fieldOps top) g s P ev).map fun a => { a with z := -a.z } :=
  avalanches_mirror top g s hs hlog hrow P ev fun c hc t =>
    (padHitsAtT_amp_sublist top g _ t).nodup (hnd c hc t)

/-- A descending sort: merge sort of the `(key, index)` pairs by key. -/
def mergeSorter : Sorter F where
  perm := fun keys => (keys.zipIdx.mergeSort fun a b => decide (b.1 ≤ a.1)).map (·.2)

theorem mergeSorter_isDescSort : IsDescSort (fieldOps top) (mergeSorter (F := F)) := by
  intro keys
  constructor
  · have h := (List.mergeSort_perm keys.zipIdx fun a b => decide (b.1 ≤ a.1)).map (·.2)
    rw [List.zipIdx_map_snd, ← List.range_eq_range'] at h
    exact h
  · have hsorted := List.pairwise_mergeSort (le := fun a b : F × Nat => decide (b.1 ≤ a.1))
      (by intro a b c; simp only [decide_eq_true_eq]; grind)
      (by intro a b; simp only [Bool.or_eq_true, decide_eq_true_eq]; grind) keys.zipIdx
    have e : applyPerm (mergeSorter.perm keys) keys
        = (keys.zipIdx.mergeSort fun a b => decide (b.1 ≤ a.1)).map (·.1) := by
      simp only [applyPerm, mergeSorter, List.filterMap_map]
      rw [← List.filterMap_eq_map']
      apply filterMap_congr'
      intro x hx
      rw [List.mem_mergeSort] at hx
      exact List.mem_zipIdx_iff_getElem?.1 hx
    rw [e, List.pairwise_map]
    refine hsorted.imp ?_
    intro a b hab
    simp only [decide_eq_true_eq] at hab
    simp only [fieldOps_lt, decide_eq_false_iff_not]
    grind

end

/-! ### 7. The hypotheses are satisfiable (over `Rat`) -/

/-- A geometry over `Rat` with the constants of the code (`PAD_PITCH_Z = L / 576`, here
`L = 576 / 250`) and a non-constant stand-in for `ln` with `ln (1 / x) = − ln x`. -/
def exGeo : Geo Rat where
  log := fun x => x - 1 / x
  ofNat := fun n => (n : Rat)
  half := 1 / 2
  two := 2
  width := 1 / 250
  halfLength := 288 * (1 / 250)

theorem exGeo_hlog : ∀ a b : Rat, 0 < a → 0 < b → exGeo.log (a / b) = - exGeo.log (b / a) := by
  intro a b ha hb
  simp only [exGeo]
  have ha' : a ≠ 0 := by grind
  have hb' : b ≠ 0 := by grind
  grind

theorem exGeo_hrow : ∀ r, r < 576 → rowZ (fieldOps 0) exGeo (575 - r) = - rowZ (fieldOps 0) exGeo r :=
  rowZ_mirror 0 exGeo (fun _ => rfl) (by simp [exGeo]; grind) rfl

/-- A three-row column with one hit (for `padHits_mirror_gen`). -/
example : (padHitsAtT (fieldOps 0) exGeo [[1],[2],[1]] 0).length = 1 := by decide
/-- A pulse shape with pairwise distinct positive values and a peak at row 100. -/
def exTent (r : Nat) : Nat := if r ≤ 100 then 1000 + 2 * r + 1 else 2 * (576 - r)

def exParams : Params Rat := { deconvBlock := id, padDeconv := id }

/-- One wire signal; every pad of every column carries one sample, `exTent row`. -/
def exEvent : Event Rat where
  wires := fun w => if w = 8 then some [1] else none
  pads := fun _ r => some [(exTent r : Rat)]

theorem exEvent_distinct : ∀ c, c < 32 → ∀ t,
    (((padInputs exParams exEvent c).map (sampleAt (fieldOps 0) · t)).filter
      fun v => decide (0 < v)).Nodup := by
  intro c _ t
  simp only [padInputs, exEvent, exParams, id, List.map_map, Function.comp_def, sampleAt,
    fieldOps_zero]
  cases t with
  | succ t =>
    -- no sample at `t ≥ 1`: every row reads `0.0`, none is positive
    have e : List.filter (fun v : Rat => decide (0 < v))
        (List.map (fun x => [(exTent x : Rat)].getD (t + 1) 0) (List.range nRows)) = [] := by
      rw [List.filter_eq_nil_iff]
      intro a ha
      simp only [List.mem_map, List.getD_cons_succ, List.getD_nil] at ha
      obtain ⟨_, _, rfl⟩ := ha
      simp
    rw [e]
    exact List.nodup_nil
  | zero =>
    apply List.Sublist.nodup List.filter_sublist
    simp only [List.getD_cons_zero]
    rw [List.Nodup, List.pairwise_map]
    refine List.pairwise_lt_range.imp_of_mem ?_
    intro i j hi hj hij
    rw [List.mem_range, nRows] at hi hj
    rw [Ne, Rat.natCast_inj]
    simp only [exTent]
    split <;> split <;> omega

/-- The example is not degenerate: column 0 has a hit at `t = 0` (rows 99, 100, 101 carry
1199, 1201, 950). -/
example (g : Geo Rat) : padHitsAtT (fieldOps 0) g (padInputs exParams exEvent 0) 0 ≠ [] := by
  intro h
  rw [padHitsAtT_eq, List.filterMap_eq_nil_iff] at h
  have h99 := h 99 (by rw [padInputs_length, List.mem_range]; omega)
  have hx : ∀ i, i < 576 → ((padInputs exParams exEvent 0).map (sampleAt (fieldOps 0) · 0)).getD i
      (fieldOps (0 : Rat)).zero = (exTent i : Rat) := by
    intro i hi
    simp [padInputs, exEvent, exParams, sampleAt, nRows, List.getD_eq_getElem?_getD, hi]
  rw [hx 99 (by omega), hx 100 (by omega), hx 101 (by omega)] at h99
  have e : isPeak (fieldOps (0 : Rat)) (exTent 99 : Rat) (exTent 100 : Rat) (exTent 101 : Rat)
      = true := by
    simp only [isPeak, fieldOps_lt, fieldOps_zero, Bool.and_eq_true, decide_eq_true_eq,
      Rat.natCast_lt_natCast, Rat.natCast_pos]
    decide
  simp [hitAt, e] at h99

/-- All hypotheses of `avalanches_mirror` hold for `exGeo`, `mergeSorter`, `exEvent`. -/
example :
    avalanches (fieldOps 0) exGeo mergeSorter exParams (mirror exEvent)
      = (avalanches (fieldOps 0) exGeo mergeSorter exParams exEvent).map
          fun a => { a with z := -a.z } :=
  avalanches_mirror_of_distinct_samples 0 exGeo mergeSorter (mergeSorter_isDescSort 0)
    exGeo_hlog exGeo_hrow exParams exEvent exEvent_distinct

end AlphaG.Matching
