/-
Shared modelling conventions (DESIGN.md section 2.1). Core Lean only: this file and every
file under `AlphaG/Model` and `AlphaG/Driver` must stay free of Mathlib/Batteries imports so
that the driver links as a `lean_exe`.
-/
namespace AlphaG

/-- Three-valued result of a modelled Rust function: a value, a typed error, or a panic
(with the name of the panicking site). Totality theorems state that `panic` is unreachable. -/
inductive Outcome (ε : Type) (α : Type) where
  | ok (a : α)
  | err (e : ε)
  | panic (site : String)
deriving Repr, DecidableEq

namespace Outcome

@[inline] def bind {ε α β : Type} (x : Outcome ε α) (f : α → Outcome ε β) : Outcome ε β :=
  match x with
  | .ok a => f a
  | .err e => .err e
  | .panic s => .panic s

instance {ε : Type} : Monad (Outcome ε) where
  pure := .ok
  bind := Outcome.bind

@[simp] theorem bind_ok {ε α β : Type} (a : α) (f : α → Outcome ε β) :
    (Outcome.ok a : Outcome ε α) >>= f = f a := rfl
@[simp] theorem bind_err {ε α β : Type} (e : ε) (f : α → Outcome ε β) :
    (Outcome.err e : Outcome ε α) >>= f = .err e := rfl
@[simp] theorem bind_panic {ε α β : Type} (s : String) (f : α → Outcome ε β) :
    (Outcome.panic s : Outcome ε α) >>= f = .panic s := rfl
@[simp] theorem pure_eq {ε α : Type} (a : α) : (pure a : Outcome ε α) = .ok a := rfl

def isOk {ε α : Type} : Outcome ε α → Bool
  | .ok _ => true
  | _ => false

def isPanic {ε α : Type} : Outcome ε α → Bool
  | .panic _ => true
  | _ => false

end Outcome

/-! ### Bytes and wire integers -/

/-- Byte `i` of a slice as a natural number (0 when out of range; every model guards the
index first, so the default is never observed — see the `*_total` theorems). -/
def byteAt (b : List UInt8) (i : Nat) : Nat := (b.getD i 0).toNat

theorem byteAt_lt (b : List UInt8) (i : Nat) : byteAt b i < 256 := by
  unfold byteAt; exact UInt8.toNat_lt _

/-- Little-endian unsigned integer of `k` bytes at offset `off` (`uN::from_le_bytes`). -/
def leAt (b : List UInt8) (off : Nat) : Nat → Nat
  | 0 => 0
  | k + 1 => byteAt b off + 256 * leAt b (off + 1) k

/-- Big-endian unsigned integer of `k` bytes at offset `off` (`uN::from_be_bytes`). -/
def beAt (b : List UInt8) (off : Nat) : Nat → Nat
  | 0 => 0
  | k + 1 => byteAt b off * 256 ^ k + beAt b (off + 1) k

/-- `k` little-endian bytes of `n` (`to_le_bytes`, truncating). -/
def leBytes (n : Nat) : Nat → List UInt8
  | 0 => []
  | k + 1 => UInt8.ofNat (n % 256) :: leBytes (n / 256) k

/-- `k` big-endian bytes of `n` (`to_be_bytes`, truncating). -/
def beBytes (n k : Nat) : List UInt8 := (leBytes n k).reverse

/-- Two's-complement reading of an unsigned `bits`-bit value. -/
def toSigned (bits : Nat) (n : Nat) : Int :=
  if n < 2 ^ (bits - 1) then (n : Int) else (n : Int) - (2 ^ bits : Nat)

/-- Two's-complement encoding of a signed value into `bits` bits. -/
def ofSigned (bits : Nat) (i : Int) : Nat := (i % ((2 ^ bits : Nat) : Int)).toNat

/-- `slice[lo..hi]`: panics (returns `none`) when `lo > hi` or `hi > len`. -/
def slice? (b : List UInt8) (lo hi : Nat) : Option (List UInt8) :=
  if lo ≤ hi ∧ hi ≤ b.length then some ((b.drop lo).take (hi - lo)) else none

/-!
### Panic guards

Decoder models are written as *flat guard chains* without binders: every Rust operation that
can panic (`slice[a..b]`, `try_into().unwrap()`, `usize` subtraction, …) becomes a guard that
yields `.panic site` when its precondition fails, followed by the rest of the computation,
which refers to the value read as an expression of the input (`leAt b off k`). (A monadic
`do` transcription was tried first: `simp` is exponential on a 25-deep bind chain.)
-/

/-- `slice[off..off+k]` must be in bounds, else panic. -/
def needBytes {ε α : Type} (site : String) (b : List UInt8) (off k : Nat) (rest : Outcome ε α) :
    Outcome ε α :=
  if off + k ≤ b.length then rest else .panic site

/-- An `unwrap()`/`assert!`/checked arithmetic step: `cond` must hold, else panic. -/
def need {ε α : Type} (site : String) (cond : Bool) (rest : Outcome ε α) : Outcome ε α :=
  if cond then rest else .panic site

theorem needBytes_eq {ε α : Type} {site : String} {b : List UInt8} {off k : Nat}
    {rest : Outcome ε α} (h : off + k ≤ b.length) : needBytes site b off k rest = rest := by
  simp [needBytes, h]

theorem need_eq {ε α : Type} {site : String} {cond : Bool} {rest : Outcome ε α}
    (h : cond = true) : need site cond rest = rest := by
  simp [need, h]

/-! ### Hex helpers for the line protocol (driver only) -/

def hexDigit? (c : Char) : Option Nat :=
  if '0' ≤ c ∧ c ≤ '9' then some (c.toNat - '0'.toNat)
  else if 'a' ≤ c ∧ c ≤ 'f' then some (c.toNat - 'a'.toNat + 10)
  else if 'A' ≤ c ∧ c ≤ 'F' then some (c.toNat - 'A'.toNat + 10)
  else none

def parseHexAux : List Char → List UInt8 → Option (List UInt8)
  | [], acc => some acc.reverse
  | [_], _ => none
  | h :: l :: rest, acc =>
    match hexDigit? h, hexDigit? l with
    | some a, some c => parseHexAux rest (UInt8.ofNat (a * 16 + c) :: acc)
    | _, _ => none

/-- Parse a hex string (`-` stands for the empty byte string). -/
def parseHex (s : String) : Option (List UInt8) :=
  if s == "-" then some [] else parseHexAux s.toList []

def hexChar (n : Nat) : Char :=
  if n < 10 then Char.ofNat (n + '0'.toNat) else Char.ofNat (n - 10 + 'a'.toNat)

def toHex (b : List UInt8) : String :=
  if b.isEmpty then "-" else
  String.ofList (b.flatMap fun x => [hexChar (x.toNat / 16), hexChar (x.toNat % 16)])

end AlphaG
