import AlphaG.Model.Basic
/-
Model of the Chronobox FIFO parser `chronobox_fifo(&mut &[u8]) -> Vec<FifoEntry>` and of the
`ChannelId` / `BoardId` conversions (detector/src/chronobox.rs). Core Lean only.

Two layers, proved equal in `Lemmas/ChronoboxRaw.lean`:

* `Raw.*` — a transcription of the winnow 0.6.1 combinators the Rust code is built from
  (`take`, `le_u24`, `verify`, `try_map`, `alt`, `repeat(0..)`, `separated_foldl1`, literal tags),
  with winnow's three results (`Ok`, `ErrMode::Backtrack`, `ErrMode::Cut` from the
  "parsers must always consume" assertion) and the final `.unwrap()` as a panic site;
* `classify` / `entries` / `block?` / `parse` — the same function written as a direct recursion
  on the remaining bytes; all property theorems (Props/C07.lean) are about this one.
-/
namespace AlphaG.Chronobox

/-- `FifoEntry`: `TimestampCounter { channel, edge, timestamp }` (edge: `false` = Leading,
`true` = Trailing) or `WrapAroundMarker { timestamp_top_bit, counter }`. -/
inductive Entry where
  | ts (ch : Nat) (edge : Bool) (t : Nat)
  | marker (top : Bool) (c : Nat)
deriving Repr, DecidableEq

/-- Classification of one 4-byte FIFO word. -/
inductive Word where
  | ts (ch : Nat) (edge : Bool) (t : Nat)
  | marker (top : Bool) (c : Nat)
  | other
deriving Repr, DecidableEq

def Word.entry? : Word → Option Entry
  | .ts ch e t => some (.ts ch e t)
  | .marker top c => some (.marker top c)
  | .other => none

/-- `le_u24`: the low three bytes of a word. -/
def u24 (b0 b1 b2 : UInt8) : Nat := b0.toNat + 256 * b1.toNat + 65536 * b2.toNat

/-- `NUM_INPUT_CHANNELS`. -/
def numInputChannels : Nat := 59

/-- `fifo_entry` on four available bytes, with the code's masks and in the code's order:
`alt((timestamp_counter, wrap_around_marker))`. `timestamp_counter`: `temp = le_u24`, then
`u8.verify(n & 0x80 == 0x80).try_map(ChannelId::try_from(n & 0x7F))` (`num < 59`), fields
`temp & 0x00FFFFFE`, `temp & 1 == 1`; `wrap_around_marker`: `temp = le_u24`, then the literal
byte `0xFF`, fields `temp & 0x00800000 == 0x00800000`, `temp & 0x007FFFFF`. -/
def classify (b0 b1 b2 b3 : UInt8) : Word :=
  if b3.toNat &&& 0x80 = 0x80 ∧ b3.toNat &&& 0x7F < numInputChannels then
    .ts (b3.toNat &&& 0x7F) (decide (u24 b0 b1 b2 &&& 1 = 1)) (u24 b0 b1 b2 &&& 0x00FFFFFE)
  else if b3.toNat = 0xFF then
    .marker (decide (u24 b0 b1 b2 &&& 0x00800000 = 0x00800000)) (u24 b0 b1 b2 &&& 0x007FFFFF)
  else .other

/-- `repeat(0.., fifo_entry)`: entries up to the first position where `fifo_entry` backtracks
(fewer than four bytes left, or a word that is neither class); never fails. -/
def entries : List UInt8 → List Entry × List UInt8
  | b0 :: b1 :: b2 :: b3 :: rest =>
    match classify b0 b1 b2 b3 with
    | .ts ch e t => (.ts ch e t :: (entries rest).1, (entries rest).2)
    | .marker top c => (.marker top c :: (entries rest).1, (entries rest).2)
    | .other => ([], b0 :: b1 :: b2 :: b3 :: rest)
  | l => ([], l)

/-- Payload of a scalers block after the tag: `take(59 * 4)` and `le_u32`. -/
def blockPayload : Nat := numInputChannels * 4 + 4

/-- `scalers_block`: tag `3C 00 00 FE`, 59×4 bytes, one `u32`; `some rest` when all 244 bytes
are present, `none` (backtrack, nothing consumed) otherwise. -/
def block? (l : List UInt8) : Option (List UInt8) :=
  match l with
  | 0x3C :: 0x00 :: 0x00 :: 0xFE :: rest =>
    if blockPayload ≤ rest.length then some (rest.drop blockPayload) else none
  | _ => none

theorem entries_rem_le (l : List UInt8) : (entries l).2.length ≤ l.length := by
  fun_induction entries l <;> simp_all <;> omega

theorem block?_lt {l r : List UInt8} (h : block? l = some r) : r.length < l.length := by
  unfold block? at h
  split at h
  · split at h
    · injection h with h; subst h; simp [blockPayload, numInputChannels]; omega
    · contradiction
  · contradiction

/-- `separated_foldl1(repeat(0.., fifo_entry), scalers_block, append)`: a run of entries, then
as long as a complete scalers block follows, the block and another (possibly empty) run of
entries. The block is consumed even when the run after it is empty, because `repeat(0..)`
succeeds with an empty vector; an incomplete block or anything else stops the parser with the
input positioned *before* it. Terminates because every block consumes 244 bytes. -/
def parse (l : List UInt8) : List Entry × List UInt8 :=
  match _h : block? (entries l).2 with
  | some r' => ((entries l).1 ++ (parse r').1, (parse r').2)
  | none => entries l
termination_by l.length
decreasing_by
  have := entries_rem_le l
  have := block?_lt _h
  omega

/-- One step of the documented resume protocol: append the new piece to the previous
remainder, parse again, accumulate the entries, keep the new remainder. -/
def feedStep (st : List Entry × List UInt8) (piece : List UInt8) : List Entry × List UInt8 :=
  (st.1 ++ (parse (st.2 ++ piece)).1, (parse (st.2 ++ piece)).2)

/-- The resume protocol over a whole history of pieces, starting with nothing buffered. -/
def feedAll (pieces : List (List UInt8)) : List Entry × List UInt8 :=
  pieces.foldl feedStep ([], [])

/-! ### Id conversions -/

/-- `ChannelId::try_from(u8)`: `Ok` iff `num < 59`. The `u8::try_from(59usize).unwrap()` inside
is a panic site guarded by the constant. -/
def channelId (num : Nat) : Outcome Unit Nat :=
  need "chronobox:num_channels_u8" (decide (numInputChannels < 256)) <|
  if num < numInputChannels then .ok num else .err ()

/-- `CHRONOBOX_NAMES`. -/
def boardNames : List String := ["cb01", "cb02", "cb03", "cb04"]

/-- `BoardId::try_from(&str)`: the name itself when it is one of the four known names. -/
def boardId (name : String) : Outcome Unit String :=
  match boardNames.find? (· == name) with
  | some n => .ok n
  | none => .err ()

/-!
### Layer `Raw`: the winnow combinators on a complete `&[u8]` stream

A parser maps the current input to `ok value consumed` (the stream is advanced by `consumed`
bytes: `input.drop consumed`), `backtrack` (`ErrMode::Backtrack`; the model is functional, so
"reset to the checkpoint" is simply using the old input again) or `cut` (`ErrMode::Cut`, only
ever produced by the `assert` of the infinite-loop checks — a panic in debug builds).
`ErrMode::Incomplete` does not exist for a complete stream.
-/
namespace Raw

inductive PRes (α : Type) where
  | ok (a : α) (consumed : Nat)
  | backtrack
  | cut (site : String)
deriving Repr

abbrev Parser (α : Type) := List UInt8 → PRes α

/-- `token::take(k)`: `offset_at(k)` fails with `ErrorKind::Slice` when fewer bytes remain. -/
def take (k : Nat) : Parser (List UInt8) := fun i =>
  if k ≤ i.length then .ok (i.take k) k else .backtrack

/-- `Parser::map`. -/
def map {α β : Type} (p : Parser α) (f : α → β) : Parser β := fun i =>
  match p i with
  | .ok a n => .ok (f a) n
  | .backtrack => .backtrack
  | .cut s => .cut s

/-- `le_uint(input, k)` = `take(k).map(to_le_uint)`. -/
def leUint (k : Nat) : Parser Nat := map (take k) (fun s => leAt s 0 k)

/-- `binary::u8` (any one byte). -/
def anyU8 : Parser Nat := map (take 1) (fun s => byteAt s 0)

/-- A byte literal used as a parser (`0xFF`): one token equal to the literal. -/
def byteLit (c : Nat) : Parser Nat := fun i =>
  match i with
  | b :: _ => if b.toNat = c then .ok c 1 else .backtrack
  | [] => .backtrack

/-- A byte-string literal used as a parser: `compare` must be `Ok`. -/
def literal (t : List UInt8) : Parser Unit := fun i =>
  if i.take t.length = t then .ok () t.length else .backtrack

/-- `Parser::verify`: on a false predicate reset and backtrack. -/
def verify {α : Type} (p : Parser α) (f : α → Bool) : Parser α := fun i =>
  match p i with
  | .ok a n => if f a then .ok a n else .backtrack
  | .backtrack => .backtrack
  | .cut s => .cut s

/-- `Parser::try_map`: on `Err` of the mapping reset and backtrack. The mapping here is
`ChannelId::try_from`, whose own panic site is carried along as `cut`. -/
def tryMap {α β : Type} (p : Parser α) (f : α → Outcome Unit β) : Parser β := fun i =>
  match p i with
  | .ok a n =>
    match f a with
    | .ok b => .ok b n
    | .err _ => .backtrack
    | .panic s => .cut s
  | .backtrack => .backtrack
  | .cut s => .cut s

/-- Sequencing (`seq!`, tuples, the `?` after `le_u24`): run `p`, then `q` on the advanced
stream; consumption adds up. A failure of `q` propagates (the enclosing `alt`/`repeat` resets). -/
def andThen {α β : Type} (p : Parser α) (q : α → Parser β) : Parser β := fun i =>
  match p i with
  | .ok a n =>
    match q a (i.drop n) with
    | .ok b m => .ok b (n + m)
    | .backtrack => .backtrack
    | .cut s => .cut s
  | .backtrack => .backtrack
  | .cut s => .cut s

/-- `alt((p, q))`: `q` is tried from the checkpoint only when `p` backtracks. -/
def alt {α : Type} (p q : Parser α) : Parser α := fun i =>
  match p i with
  | .backtrack => q i
  | r => r

/-- `repeat0_`: accumulate until the parser backtracks; a success that does not shorten the
stream is the `assert` of the infinite-loop check. -/
def repeat0 {α : Type} (p : Parser α) (i : List UInt8) : PRes (List α) :=
  match p i with
  | .backtrack => .ok [] 0
  | .cut s => .cut s
  | .ok a n =>
    if _h : (i.drop n).length = i.length then .cut "repeat: parsers must always consume" else
    match repeat0 p (i.drop n) with
    | .ok acc m => .ok (a :: acc) (n + m)
    | .backtrack => .backtrack
    | .cut s => .cut s
termination_by i.length
decreasing_by
  simp only [List.length_drop] at *
  omega

/-- The loop of `separated_foldl1` after the first element: `ol` is the accumulator, the
result counts the bytes consumed from `i`. When the separator backtracks, or the element
after it backtracks, the stream is reset to before the separator (`consumed = 0` here). -/
def sepLoop {α β : Type} (p : Parser α) (sep : Parser β) (op : α → β → α → α) (ol : α)
    (i : List UInt8) : PRes α :=
  match sep i with
  | .backtrack => .ok ol 0
  | .cut s => .cut s
  | .ok s n =>
    if _h : (i.drop n).length = i.length then
      .cut "separated_foldl1: parsers must always consume" else
    match p (i.drop n) with
    | .backtrack => .ok ol 0
    | .cut c => .cut c
    | .ok or m =>
      match sepLoop p sep op (op ol s or) ((i.drop n).drop m) with
      | .ok a k => .ok a (n + m + k)
      | .backtrack => .backtrack
      | .cut c => .cut c
termination_by i.length
decreasing_by
  simp only [List.length_drop] at *
  omega

/-- `separated_foldl1(parser, sep, op)`: `parser.parse_next(i)?` and then the loop. -/
def separatedFoldl1 {α β : Type} (p : Parser α) (sep : Parser β) (op : α → β → α → α) :
    Parser α :=
  andThen p (fun ol => sepLoop p sep op ol)

/-- `timestamp_counter`. -/
def timestampCounter : Parser Entry :=
  andThen (leUint 3) fun temp =>
    map (tryMap (verify anyU8 (fun n => decide (n &&& 0x80 = 0x80)))
          (fun n => channelId (n &&& 0x7F)))
      (fun ch => Entry.ts ch (decide (temp &&& 1 = 1)) (temp &&& 0x00FFFFFE))

/-- `wrap_around_marker`. -/
def wrapAroundMarker : Parser Entry :=
  andThen (leUint 3) fun temp =>
    map (byteLit 0xFF)
      (fun _ => Entry.marker (decide (temp &&& 0x00800000 = 0x00800000)) (temp &&& 0x007FFFFF))

/-- `fifo_entry`. -/
def fifoEntry : Parser Entry := alt timestampCounter wrapAroundMarker

/-- `scalers_block`: `(tag, take(59 * 4), le_u32).void()`. -/
def scalersBlock : Parser Unit :=
  andThen (literal [0x3C, 0x00, 0x00, 0xFE]) fun _ =>
  andThen (take (numInputChannels * 4)) fun _ =>
  map (leUint 4) fun _ => ()

/-- The parser inside `chronobox_fifo`. -/
def fifo : Parser (List Entry) :=
  separatedFoldl1 (repeat0 fifoEntry) scalersBlock (fun l _ r => l ++ r)

/-- `chronobox_fifo`: run the parser, `.unwrap()` its result; returns the entries and the
advanced slice. -/
def chronoboxFifo (i : List UInt8) : Outcome Unit (List Entry × List UInt8) :=
  match fifo i with
  | .ok es n => .ok (es, i.drop n)
  | .backtrack => .panic "chronobox_fifo:unwrap"
  | .cut s => .panic s

end Raw

end AlphaG.Chronobox
