import AlphaG.Model.Cluster
/-
Bookkeeping model of `find_vertices` / `beamline_clusters`
(physics/src/reconstruction/vertex_fitting.rs). Tracks are **indices** into the input vector.
The float-valued ingredients are parameters:

* `eq i j`     — `Track == Track` (derived `PartialEq`),
* `keep i`     — the two `filter`s selecting the primary-vertex seed
                 (`arc_length > min_track_length`, `|r - hypot(x0,y0)| < max_dca`),
* `sort l`     — `tracks.sort_unstable_by(|a,b| z(a).partial_cmp(&z(b)).unwrap())`:
                 `none` when a NaN reaches the `unwrap`; otherwise *some* reordering
                 (the order among equal keys is unspecified for an unstable sort, so the theorems
                 only assume `sort l` is a permutation of `l`),
* `close t l`  — `(z(t) - z(l)).abs() < max_beamline_clustering_distance`,
* `cmp a b`    — `Σ r(a) .partial_cmp(Σ r(b))`, `none` when a NaN reaches the `unwrap`.

The minimiser (`argmin` Nelder–Mead) computes the vertex *position* only; it does not touch
the track list, so it does not appear here (see Props/C14 for its panic sites).
Core Lean only.
-/
namespace AlphaG.Vertexing
open AlphaG.Cluster (position swapRemove)

structure Ctx where
  eq : Nat → Nat → Bool
  keep : Nat → Bool
  sort : List Nat → Option (List Nat)
  close : Nat → Nat → Bool
  cmp : List Nat → List Nat → Option Ordering

/-- Loop body of `beamline_clusters`:
`let last_z = clusters.last().unwrap().last().unwrap()…; if |z - last_z| < max
{ clusters.last_mut().unwrap().push(track) } else { clusters.push(vec![track]) }`. -/
def groupStep (ctx : Ctx) (cls : List (List Nat)) (t : Nat) : Outcome Unit (List (List Nat)) :=
  match cls.getLast? with
  | none => .panic "beamline_clusters:clusters.last"
  | some c =>
    match c.getLast? with
    | none => .panic "beamline_clusters:cluster.last"
    | some l => if ctx.close t l then .ok (cls.dropLast ++ [c ++ [t]]) else .ok (cls ++ [[t]])

def groupAll (ctx : Ctx) : List Nat → List (List Nat) → Outcome Unit (List (List Nat))
  | [], cls => .ok cls
  | t :: ts, cls =>
    match groupStep ctx cls t with
    | .ok cls' => groupAll ctx ts cls'
    | .err e => .err e
    | .panic s => .panic s

/-- `beamline_clusters(tracks, max)` (the mean `z` of each cluster is not bookkeeping). -/
def beamlineClusters (ctx : Ctx) (tracks : List Nat) : Outcome Unit (List (List Nat)) :=
  if tracks.isEmpty then .ok []
  else
    match ctx.sort tracks with
    | none => .panic "beamline_clusters:partial_cmp"
    | some [] => .panic "beamline_clusters:tracks[0]"
    | some (t0 :: ts) => groupAll ctx ts [[t0]]

/-- `Itertools::max_set_by_key`: all maximal elements, in order of appearance. -/
def maxSetByKey {α : Type} (key : α → Nat) (l : List α) : List α :=
  l.foldl (fun acc x =>
    match acc with
    | [] => [x]
    | a :: _ => if key a < key x then [x] else if key x = key a then acc ++ [x] else acc) []

/-- `Iterator::max_by(compare)` where `compare` is `partial_cmp(..).unwrap()`:
`fold(first, |x, y| match compare(&x, &y) { Greater => x, _ => y })`. -/
def maxByFold {α : Type} (cmp : α → α → Option Ordering) : α → List α → Outcome Unit α
  | best, [] => .ok best
  | best, x :: l =>
    match cmp best x with
    | none => .panic "find_vertices:partial_cmp"
    | some .gt => maxByFold cmp best l
    | some _ => maxByFold cmp x l

def maxBy {α : Type} (cmp : α → α → Option Ordering) : List α → Outcome Unit (Option α)
  | [] => .ok none
  | a :: l =>
    match maxByFold cmp a l with
    | .ok b => .ok (some b)
    | .err e => .err e
    | .panic s => .panic s

/-- The remainder loop: `let index = tracks.iter().position(|t| t == track).unwrap();
tracks.swap_remove(index);`. -/
def removeTracks (ctx : Ctx) : List Nat → List Nat → Outcome Unit (List Nat)
  | [], ts => .ok ts
  | p :: ps, ts =>
    match position (fun q => ctx.eq q p) ts with
    | none => .panic "find_vertices:position"
    | some i => removeTracks ctx ps (swapRemove ts i)

structure Result where
  primary : Option (List Nat)
  secondaries : List (List Nat)
  remainder : List Nat
deriving Repr, DecidableEq

def findVertices (ctx : Ctx) (tracks : List Nat) : Outcome Unit Result :=
  match beamlineClusters ctx (tracks.filter ctx.keep) with
  | .ok cls =>
    match maxBy ctx.cmp (maxSetByKey List.length (cls.filter (fun c => decide (1 < c.length)))) with
    | .ok v =>
      match removeTracks ctx (v.getD []) tracks with
      | .ok rem => .ok ⟨v, [], rem⟩
      | .err e => .err e
      | .panic s => .panic s
    | .err e => .err e
    | .panic s => .panic s
  | .err e => .err e
  | .panic s => .panic s

end AlphaG.Vertexing
