import AlphaG.Model.Basic
/-
Combinatorial model of `cluster_spacepoints` (physics/src/reconstruction/track_finding.rs).

Points are **indices** (`Nat`) into the input vector. The three float-valued ingredients of
the Rust code are parameters (`Ctx`), computed by the real code in the correspondence run:

* `eq i j`    — `SpacePoint == SpacePoint` (derived `PartialEq` on three `f64`s),
* `bins i`    — `HoughSpaceAccumulator::get_bins(point i)`; a bin `(theta, rho)` is one `Nat`
                (any injective encoding; the driver ranks bins by first appearance),
* `near i j`  — `point_i.distance(point_j) <= max_distance`.

Everything else is transcribed operation by operation, with the *order* semantics of the Rust
containers, because the correspondence run compares clusters and remainder **in order**:

* the accumulator is an insertion-ordered association list (`IndexMap<(u32,u32), Vec<_>>`):
  `entry(bin).or_default().push(p)`, `get_mut(&bin).unwrap()`, `values()` in insertion order;
  a bucket that becomes empty is **not** removed (the code never calls `remove`);
* `Iterator::max_by_key` returns the **last** maximal element;
* `Vec::swap_remove(j)` moves the last element into slot `j`;
* `Vec::pop` takes from the end.

Every `unwrap` of the bookkeeping is a `.panic site` outcome; every loop takes fuel and fuel
exhaustion is the distinguished outcome `.panic "fuel:…"` (Props/C15 proves neither happens).
Core Lean only.
-/
namespace AlphaG.Cluster

structure Ctx where
  eq : Nat → Nat → Bool
  bins : Nat → List Nat
  near : Nat → Nat → Bool

/-! ### `Vec` primitives -/

/-- `iter().position(f)`: index of the first element satisfying `f`. -/
def position (f : Nat → Bool) : List Nat → Option Nat
  | [] => none
  | a :: l => if f a then some 0 else (position f l).map (· + 1)

/-- `Vec::swap_remove(j)` for `j < len` (callers guard the index): the last element takes the
place of element `j`. -/
def swapRemove (l : List Nat) (j : Nat) : List Nat :=
  if j + 1 < l.length then l.take j ++ l.getLastD 0 :: (l.drop (j + 1)).dropLast
  else l.take j

/-- `Iterator::max_by_key(key)`: the fold keeps the accumulated element only when its key is
strictly greater, i.e. the **last** maximal element wins. -/
def lastMaxBy {α : Type} (key : α → Nat) : List α → Option α
  | [] => none
  | a :: l => some (l.foldl (fun best x => if key best ≤ key x then x else best) a)

/-! ### The Hough accumulator (`IndexMap<bin, Vec<point>>`) -/

/-- Entries in insertion order. `dense = true` records that every key equals its position
(bins ranked by first appearance), which makes the key lookup O(1); for arbitrary keys the
lookup is the linear search of an association list. `findKey_spec` (Lemmas/ClusterAcc) shows
both paths return the position of the key. -/
structure Acc where
  entries : Array (Nat × List Nat)
  dense : Bool

def Acc.empty : Acc := ⟨#[], true⟩

/-- Position of key `b` (`IndexMap::get_index_of`). -/
def findKey (acc : Acc) (b : Nat) : Option Nat :=
  if acc.dense then (if b < acc.entries.size then some b else none)
  else acc.entries.toList.findIdx? (fun e => e.1 == b)

/-- `self.accumulator.entry(bin).or_default().push(point)`. -/
def addBin (acc : Acc) (b p : Nat) : Acc :=
  match findKey acc b with
  | some i => ⟨acc.entries.modify i (fun e => (e.1, e.2 ++ [p])), acc.dense⟩
  | none =>
    -- (the flag is computed before the push so that the compiled push is in place)
    let d := acc.dense && b == acc.entries.size
    ⟨acc.entries.push (b, [p]), d⟩

def addBins (p : Nat) : List Nat → Acc → Acc
  | [], acc => acc
  | b :: bs, acc => addBins p bs (addBin acc b p)

/-- `HoughSpaceAccumulator::add`. -/
def add (ctx : Ctx) (acc : Acc) (p : Nat) : Acc := addBins p (ctx.bins p) acc

/-- One iteration of `remove_unchecked`:
`let vec = get_mut(&bin).unwrap(); let pos = vec.iter().position(|q| *q == point).unwrap();
vec.swap_remove(pos);` -/
def removeBin (ctx : Ctx) (acc : Acc) (b p : Nat) : Outcome Unit Acc :=
  match findKey acc b with
  | none => .panic "remove_unchecked:get_mut"
  | some i =>
    match position (fun q => ctx.eq q p) (acc.entries[i]!).2 with
    | none => .panic "remove_unchecked:position"
    | some pos => .ok ⟨acc.entries.modify i (fun e => (e.1, swapRemove e.2 pos)), acc.dense⟩

def removeBins (ctx : Ctx) (p : Nat) : List Nat → Acc → Outcome Unit Acc
  | [], acc => .ok acc
  | b :: bs, acc =>
    match removeBin ctx acc b p with
    | .ok acc' => removeBins ctx p bs acc'
    | .err e => .err e
    | .panic s => .panic s

/-- `HoughSpaceAccumulator::remove_unchecked`. -/
def remove (ctx : Ctx) (acc : Acc) (p : Nat) : Outcome Unit Acc :=
  removeBins ctx p (ctx.bins p) acc

/-- `for &point in best.iter() { accumulator.remove_unchecked(point) }`. -/
def removeAll (ctx : Ctx) : List Nat → Acc → Outcome Unit Acc
  | [], acc => .ok acc
  | p :: ps, acc =>
    match remove ctx acc p with
    | .ok acc' => removeAll ctx ps acc'
    | .err e => .err e
    | .panic s => .panic s

/-- `for &point in prev_best.iter() { accumulator.add(point) }`. -/
def addAll (ctx : Ctx) : List Nat → Acc → Acc
  | [], acc => acc
  | p :: ps, acc => addAll ctx ps (add ctx acc p)

/-- `most_popular`: `values().max_by_key(|v| v.len()).cloned().unwrap_or_default()`. -/
def mostPopular (acc : Acc) : List Nat :=
  ((lastMaxBy (fun e : Nat × List Nat => e.2.length) acc.entries.toList).map (·.2)).getD []

/-! ### `largest_cluster` -/

/-- The `j` loop: `while j < points.len() { if cluster[i].distance(points[j]) <= max
{ cluster.push(points.swap_remove(j)) } else { j += 1 } }`. `c = near cluster[i]`.
State `(points, cluster)`. Fuel `points.len() - j` is exact. -/
def scan (c : Nat → Bool) : Nat → Nat → List Nat × List Nat → List Nat × List Nat
  | 0, _, s => s
  | fuel + 1, j, s =>
    if h : j < s.1.length then
      if c s.1[j] then scan c fuel j (swapRemove s.1 j, s.2 ++ [s.1[j]])
      else scan c fuel (j + 1) s
    else s

/-- The `i` loop: `while i < cluster.len() { j loop; i += 1 }`. -/
def grow (near : Nat → Nat → Bool) : Nat → Nat → List Nat × List Nat → List Nat × List Nat
  | 0, _, s => s
  | fuel + 1, i, s =>
    if h : i < s.2.length then grow near fuel (i + 1) (scan (near s.2[i]) s.1.length 0 s)
    else s

/-- `while let Some(point) = points.pop() { cluster = vec![point]; i loop; clusters.push(cluster) }`. -/
def components (near : Nat → Nat → Bool) : Nat → List Nat → List (List Nat) → List (List Nat)
  | 0, _, out => out
  | fuel + 1, pts, out =>
    match pts.getLast? with
    | none => out
    | some p =>
      let s := grow near pts.length 0 (pts.dropLast, [p])
      components near fuel s.1 (out ++ [s.2])

/-- `largest_cluster(points, max_distance)`:
`clusters.into_iter().max_by_key(|c| c.len()).unwrap_or_default()`. -/
def largestCluster (near : Nat → Nat → Bool) (pts : List Nat) : List Nat :=
  (lastMaxBy List.length (components near pts.length pts [])).getD []

/-! ### `best_cluster`, the outer loop, the remainder -/

/-- `best_cluster(&mut accumulator, max_distance)`, state `(accumulator, prev_best)`.
`n` bounds the number of points (fuel of the callee loops is derived from the data). -/
def bestCluster (ctx : Ctx) : Nat → Acc → List Nat → Outcome Unit (Acc × List Nat)
  | 0, _, _ => .panic "fuel:best_cluster"
  | fuel + 1, acc, prev =>
    let best := largestCluster ctx.near (mostPopular acc)
    if best.length ≤ prev.length then .ok (acc, prev)
    else
      match removeAll ctx best acc with
      | .ok acc' => bestCluster ctx fuel (addAll ctx prev acc') best
      | .err e => .err e
      | .panic s => .panic s

/-- `loop { let cluster = best_cluster(..); if cluster.len() < min { break; } clusters.push(cluster) }`.
`n + 1` is the fuel handed to every `best_cluster` call. -/
def outer (ctx : Ctx) (min n : Nat) : Nat → Acc → List (List Nat) → Outcome Unit (List (List Nat))
  | 0, _, _ => .panic "fuel:cluster_loop"
  | fuel + 1, acc, cls =>
    match bestCluster ctx (n + 1) acc [] with
    | .ok r => if r.2.length < min then .ok cls else outer ctx min n fuel r.1 (cls ++ [r.2])
    | .err e => .err e
    | .panic s => .panic s

/-- `for &point in clusters.iter().flatten() { let index = sp.iter().position(|&p| p == point)
.unwrap(); sp.swap_remove(index); }`. -/
def removeFromSp (ctx : Ctx) : List Nat → List Nat → Outcome Unit (List Nat)
  | [], sp => .ok sp
  | p :: ps, sp =>
    match position (fun q => ctx.eq q p) sp with
    | none => .panic "remainder:position"
    | some i => removeFromSp ctx ps (swapRemove sp i)

structure Result where
  clusters : List (List Nat)
  remainder : List Nat
deriving Repr, DecidableEq

/-- `for &point in sp.iter() { accumulator.add(point) }`. -/
def fill (ctx : Ctx) (sp : List Nat) : Acc := addAll ctx sp Acc.empty

/-- `cluster_spacepoints(sp, min, ..)`; fuel `|sp| + 1` for both loops. -/
def cluster (ctx : Ctx) (min : Nat) (sp : List Nat) : Outcome Unit Result :=
  match outer ctx min sp.length (sp.length + 1) (fill ctx sp) [] with
  | .ok cls =>
    match removeFromSp ctx cls.flatten sp with
    | .ok rem => .ok ⟨cls, rem⟩
    | .err e => .err e
    | .panic s => .panic s
  | .err e => .err e
  | .panic s => .panic s

end AlphaG.Cluster
