import AlphaG.Model.Pwb
/-
Model of `PwbV2Packet::try_from(Vec<Chunk>)` (detector/src/padwing.rs), check by check in the
order of the Rust code. Chunks are *values* (`ChunkV`), independent of the chunk byte decoder
(C03): `ChunkV.Valid` is the invariant that `Chunk::try_from(&[u8])` establishes; an adapter
from the byte decoder's output is provided elsewhere.

The Rust code sorts with `sort_unstable_by_key(|c| c.chunk_id)`, whose contract is only "a
permutation of the input, sorted by key". `reassembleWith cs s` therefore takes the sorted
list `s` as a parameter; theorems quantify over *every* `s` with
`s.Perm cs ∧ s.Pairwise (·.chunkId ≤ ·.chunkId)`, and the executable `reassemble` instantiates
it with core `List.mergeSort`.
-/
namespace AlphaG.Pwb

/-- The fields of a `Chunk` that reassembly looks at. -/
structure ChunkV where
  deviceId : Nat
  chip : Nat
  flags : Nat
  chunkId : Nat
  payload : List UInt8
deriving Repr, DecidableEq

/-- Invariant established by `Chunk::try_from(&[u8])`. -/
def ChunkV.Valid (c : ChunkV) : Prop :=
  (boardOfDevice c.deviceId).isSome = true ∧ c.chip ≤ 3 ∧ c.flags ≤ 1 ∧ c.chunkId < 65536
    ∧ c.payload.length ≤ 65535

instance ChunkV.decValid (c : ChunkV) : Decidable c.Valid := by unfold ChunkV.Valid; infer_instance

/-- `TryPwbPacketFromChunksError`. The payloads of the two mismatch variants (`found`,
`expected`) depend on arrival order and are not modelled; all other payloads are. -/
inductive CErr where
  | deviceIdMismatch
  | channelIdMismatch
  | missingChunk (position : Nat)
  | missingEndOfMessageChunk
  | misplacedEndOfMessageChunk (position : Nat)
  | payloadLengthMismatch (found expected : Nat)
  | badPayload (e : Err)
deriving Repr, DecidableEq

/-- `AfterId::try_from(u8)` (`none` = error, which `Chunk::after_id` unwraps). -/
def afterIdOf (chip : Nat) : Option Nat := if chip ≤ 3 then some chip else none

/-- `Chunk::is_end_of_message`: `flags & 1 == 1`. -/
def ChunkV.isEom (c : ChunkV) : Bool := decide (c.flags &&& 1 = 1)

/-- Result of an `iter().position(..)` scan whose closure may panic. -/
inductive Scan where
  | clean | mismatch | panic
deriving Repr, DecidableEq

/-- `chunks.iter().position(|c| c.board_id() != chunks[0].board_id())`: both `board_id()`
calls unwrap `BoardId::try_from(device_id)`. `d0` is `chunks[0].device_id`. -/
def boardScan (d0 : Nat) : List ChunkV → Scan
  | [] => .clean
  | c :: cs =>
    if (boardOfDevice c.deviceId).isNone ∨ (boardOfDevice d0).isNone then .panic
    else if boardOfDevice c.deviceId ≠ boardOfDevice d0 then .mismatch
    else boardScan d0 cs

/-- `chunks.iter().position(|c| c.after_id() != chunks[0].after_id())`. -/
def chipScan (c0 : Nat) : List ChunkV → Scan
  | [] => .clean
  | c :: cs =>
    if (afterIdOf c.chip).isNone ∨ (afterIdOf c0).isNone then .panic
    else if afterIdOf c.chip ≠ afterIdOf c0 then .mismatch
    else chipScan c0 cs

/-- `chunks.iter().enumerate().position(|(i, c)| usize::from(c.chunk_id) != i)`, the
enumeration starting at `i`. -/
def idMismatchPos : List ChunkV → Nat → Option Nat
  | [], _ => none
  | c :: cs, i => if c.chunkId ≠ i then some i else idMismatchPos cs (i + 1)

def dev0 : List ChunkV → Nat
  | [] => 0
  | c :: _ => c.deviceId
def chip0 : List ChunkV → Nat
  | [] => 0
  | c :: _ => c.chip
/-- `chunks[0].payload().len()`. -/
def len0 : List ChunkV → Nat
  | [] => 0
  | c :: _ => c.payload.length

/-- `chunks.last().unwrap().is_end_of_message()` (guarded by non-emptiness). -/
def lastEom (s : List ChunkV) : Bool :=
  match s.getLast? with
  | some c => c.isEom
  | none => false

/-- `PwbV2Packet::try_from(&payload[..])?` with `From` into `BadPayload`. -/
def liftPayload : Outcome Err PwbPacket → Outcome CErr PwbPacket
  | .ok p => .ok p
  | .err e => .err (.badPayload e)
  | .panic s => .panic s

/-- Everything after `chunks.sort_unstable_by_key(|c| c.chunk_id)`, on the sorted vector. -/
def reassembleSorted (s : List ChunkV) : Outcome CErr PwbPacket :=
  if (idMismatchPos s 0).isSome then .err (.missingChunk ((idMismatchPos s 0).getD 0)) else
  need "chunks.last().unwrap()" (!s.isEmpty) <|
  if ¬lastEom s then .err .missingEndOfMessageChunk else
  need "chunks.len()-1" (decide (1 ≤ s.length)) <|
  if ((s.take (s.length - 1)).findIdx? ChunkV.isEom).isSome then
    .err (.misplacedEndOfMessageChunk (((s.take (s.length - 1)).findIdx? ChunkV.isEom).getD 0))
  else
  need "chunks[0]" (decide (0 < s.length)) <|
  if ((s.take (s.length - 1)).find? (fun c => c.payload.length != len0 s)).isSome then
    .err (.payloadLengthMismatch
      ((((s.take (s.length - 1)).find? (fun c => c.payload.length != len0 s)).map
        (·.payload.length)).getD 0)
      (len0 s))
  else
  -- `chunks[0].payload().len() * chunks.len()` in `usize`
  need "chunks:max_items" (decide (len0 s * s.length < 2 ^ 64)) <|
  liftPayload (decodePwb (s.flatMap (·.payload)))

/-- The checks before the sort (on the arrival order `cs`), then the rest on `s`. -/
def reassembleWith (cs s : List ChunkV) : Outcome CErr PwbPacket :=
  if cs.isEmpty then .err (.missingChunk 0) else
  if boardScan (dev0 cs) cs = .panic then .panic "Chunk::board_id unwrap" else
  if boardScan (dev0 cs) cs = .mismatch then .err .deviceIdMismatch else
  if chipScan (chip0 cs) cs = .panic then .panic "Chunk::after_id unwrap" else
  if chipScan (chip0 cs) cs = .mismatch then .err .channelIdMismatch else
  reassembleSorted s

/-- An executable sort that meets the `sort_unstable_by_key` contract (see
`sortById_perm`, `sortById_sorted` in Props/C04.lean). -/
def sortById (cs : List ChunkV) : List ChunkV :=
  cs.mergeSort (fun a b => decide (a.chunkId ≤ b.chunkId))

def reassemble (cs : List ChunkV) : Outcome CErr PwbPacket := reassembleWith cs (sortById cs)

end AlphaG.Pwb
