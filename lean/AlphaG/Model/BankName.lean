import AlphaG.Model.Basic
import AlphaG.Generated.Boards
import AlphaG.Generated.Names
/-
Model of the bank-name parsers of detector/src/midas.rs (C08 names, bank-name part of C01):
`Adc16BankName`, `Adc32BankName`, `Alpha16BankName`, `PadwingBankName`, `TriggerBankName`,
`Trb3BankName`, `Seq2BankName`, `McVertexBankName`, `MainEventBankName`, `ChronoboxBankName`
(all `TryFrom<&str>`) and `EventId::try_from(u16)`.

A Rust `&str` is modelled by the list of its Unicode scalar values (`String.toList` mapped to
`Nat`); `str::len()` is the UTF-8 byte length `byteLen`, and a range index `&s[a..]`, `&s[..b]`
is a byte index that *panics* unless it falls on a character boundary inside the string
(`sliceFrom`, `sliceTo` return `none` then). Screening order, slicing, `u8::from_str_radix`
(sign handling, digit classes, overflow) and the `unwrap`s follow the code and the std sources.
Prefixes, lengths, slice offsets, radices, channel bounds and literal names come from
`AlphaG.Generated.Names`, board names from `AlphaG.Generated.Boards`. Core Lean only.
-/
namespace AlphaG.BankName
open AlphaG.Generated

/-- Scalar values of a string. -/
def codes (s : String) : List Nat := s.toList.map Char.toNat

/-- UTF-8 encoded length of a scalar value (`char::len_utf8`). -/
def utf8Len (c : Nat) : Nat :=
  if c < 0x80 then 1 else if c < 0x800 then 2 else if c < 0x10000 then 3 else 4

/-- `str::len()`: length in bytes. -/
def byteLen : List Nat → Nat
  | [] => 0
  | c :: cs => utf8Len c + byteLen cs

/-- `&s[k..]`; `none` is the panic "byte index k is out of bounds / not a char boundary". -/
def sliceFrom : List Nat → Nat → Option (List Nat)
  | [], k => if k = 0 then some [] else none
  | c :: cs, k =>
    if k = 0 then some (c :: cs)
    else if utf8Len c ≤ k then sliceFrom cs (k - utf8Len c) else none

/-- `&s[..k]`; `none` is the panic. -/
def sliceTo : List Nat → Nat → Option (List Nat)
  | [], k => if k = 0 then some [] else none
  | c :: cs, k =>
    if k = 0 then some []
    else if utf8Len c ≤ k then (sliceTo cs (k - utf8Len c)).map (fun r => c :: r) else none

def isAsciiDigit (c : Nat) : Bool := decide (48 ≤ c ∧ c ≤ 57)
def isAsciiLower (c : Nat) : Bool := decide (97 ≤ c ∧ c ≤ 122)
def isAsciiUpper (c : Nat) : Bool := decide (65 ≤ c ∧ c ≤ 90)
def isAsciiAlnum (c : Nat) : Bool := isAsciiDigit c || isAsciiUpper c || isAsciiLower c

/-- `char::to_digit(radix)` (for a byte read as a char, as `from_str_radix` does): digits, then
letters of either case from 10 on; `none` when not a digit of that radix. -/
def toDigit (c radix : Nat) : Option Nat :=
  if 48 ≤ c ∧ c ≤ 57 then (if c - 48 < radix then some (c - 48) else none)
  else if radix ≤ 10 then none
  else if 65 ≤ c ∧ c ≤ 90 then (if c - 55 < radix then some (c - 55) else none)
  else if 97 ≤ c ∧ c ≤ 122 then (if c - 87 < radix then some (c - 87) else none)
  else none

/-- Digit accumulation of `u8::from_str_radix` (checked multiply-add, `PosOverflow` past 255). -/
def digitsValue (radix : Nat) : List Nat → Nat → Option Nat
  | [], acc => some acc
  | c :: cs, acc =>
    match toDigit c radix with
    | none => none
    | some d => if acc * radix + d ≤ 255 then digitsValue radix cs (acc * radix + d) else none

/-- `u8::from_str_radix(s, radix)`; `none` stands for any `ParseIntError` (`Empty`, `InvalidDigit`
— also for a lone sign —, `PosOverflow`); a leading `+` is accepted, a leading `-` is a digit
error for an unsigned type. A non-ASCII scalar is some bytes ≥ 0x80, none of which is a digit. -/
def fromStrRadixU8 (cs : List Nat) (radix : Nat) : Option Nat :=
  match cs with
  | [] => none
  | [c] => if c = 43 ∨ c = 45 then none else digitsValue radix [c] 0
  | c :: rest => if c = 43 then digitsValue radix rest 0 else digitsValue radix (c :: rest) 0

/-- Row of the first board whose name equals the slice (`BoardId::try_from(&str)`). -/
def lookupIdx : List (List Nat) → List Nat → Option Nat
  | [], _ => none
  | n :: ns, x => if n = x then some 0 else (lookupIdx ns x).map (· + 1)

def a16Codes : List (List Nat) := alpha16Boards.map (fun r => codes r.1)
def pwbCodes : List (List Nat) := padwingBoards.map (fun r => codes r.1)
def cbCodes : List (List Nat) := chronoboxNames.map codes

inductive A16Err where
  | patternMismatch | unknownBoardId | unknownChannelId
deriving Repr, DecidableEq

inductive PwbErr where
  | patternMismatch | unknownBoardId
deriving Repr, DecidableEq

inductive MainErr where
  | patternMismatch
  | badAlpha16 (e : A16Err)
  | badPadwing (e : PwbErr)
  | badTrigger | badTrb3 | badMcVertex
deriving Repr, DecidableEq

inductive Kind where
  | adc16 | adc32 | padwing | trg | trb3 | mcvx
deriving Repr, DecidableEq

/-- What a main-event bank name denotes: kind, board (row of the board table; 0 when the kind has
no board), channel (0 when the kind has no channel). -/
structure Name where
  kind : Kind
  board : Nat
  channel : Nat
deriving Repr, DecidableEq

/-- `&name[1..][..2]` -/
def boardSlice (cs : List Nat) (from_ len : Nat) : List Nat :=
  (sliceTo ((sliceFrom cs from_).getD []) len).getD []

/-- Common body of `Adc16BankName::try_from` / `Adc32BankName::try_from` → (board row, channel). -/
def adcName (pre len bfrom blen cfrom radix chmax : Nat) (cs : List Nat) :
    Outcome A16Err (Nat × Nat) :=
  if cs.head? ≠ some pre ∨ byteLen cs ≠ len ∨ cs.all isAsciiAlnum = false
      ∨ cs.any isAsciiLower = true then .err .patternMismatch else
  need "midas:alpha16-name[a..]" (sliceFrom cs bfrom).isSome <|
  need "midas:alpha16-name[a..][..b]" (sliceTo ((sliceFrom cs bfrom).getD []) blen).isSome <|
  if (lookupIdx a16Codes (boardSlice cs bfrom blen)).isNone then .err .unknownBoardId else
  need "midas:alpha16-name[c..]" (sliceFrom cs cfrom).isSome <|
  -- `from_str_radix` asserts 2 ≤ radix ≤ 36
  need "midas:from_str_radix-radix" (decide (2 ≤ radix ∧ radix ≤ 36)) <|
  if (fromStrRadixU8 ((sliceFrom cs cfrom).getD []) radix).isNone then .err .unknownChannelId else
  -- `AdcNNChannelId::try_from(..).unwrap()`
  need "midas:alpha16-channel-unwrap"
    (decide ((fromStrRadixU8 ((sliceFrom cs cfrom).getD []) radix).getD 0 ≤ chmax)) <|
  .ok ((lookupIdx a16Codes (boardSlice cs bfrom blen)).getD 0,
       (fromStrRadixU8 ((sliceFrom cs cfrom).getD []) radix).getD 0)

def adc16Name (cs : List Nat) : Outcome A16Err (Nat × Nat) :=
  adcName adc16Prefix.toNat adc16Len adc16BoardFrom adc16BoardLen adc16ChannelFrom adc16Radix
    adc16ChannelMax cs

def adc32Name (cs : List Nat) : Outcome A16Err (Nat × Nat) :=
  adcName adc32Prefix.toNat adc32Len adc32BoardFrom adc32BoardLen adc32ChannelFrom adc32Radix
    adc32ChannelMax cs

/-- Change error and value of an outcome (`?` with `From`, `Ok(Self::X(..))`). -/
def mapOut {ε ε' α β : Type} (fe : ε → ε') (fa : α → β) : Outcome ε α → Outcome ε' β
  | .ok a => .ok (fa a)
  | .err e => .err (fe e)
  | .panic s => .panic s

/-- `Alpha16BankName::try_from`: `C…` → Adc32, `B…` → Adc16, else `PatternMismatch`. -/
def alpha16Name (cs : List Nat) : Outcome A16Err Name :=
  if cs.head? = some 67 then mapOut id (fun p => ⟨.adc32, p.1, p.2⟩) (adc32Name cs)
  else if cs.head? = some 66 then mapOut id (fun p => ⟨.adc16, p.1, p.2⟩) (adc16Name cs)
  else .err .patternMismatch

/-- `PadwingBankName::try_from` → board row. The `||` chain evaluates `name[2..]` only when the
name starts with the prefix and has the right length. -/
def padwingName (cs : List Nat) : Outcome PwbErr Nat :=
  if (codes padwingPrefix).isPrefixOf cs = false ∨ byteLen cs ≠ padwingLen then .err .patternMismatch else
  need "midas:padwing-name[a..]" (sliceFrom cs padwingDigitsFrom).isSome <|
  if ((sliceFrom cs padwingDigitsFrom).getD []).all isAsciiDigit = false then .err .patternMismatch else
  need "midas:padwing-name[b..]" (sliceFrom cs padwingBoardFrom).isSome <|
  if (lookupIdx pwbCodes ((sliceFrom cs padwingBoardFrom).getD [])).isNone then .err .unknownBoardId else
  .ok ((lookupIdx pwbCodes ((sliceFrom cs padwingBoardFrom).getD [])).getD 0)

/-- `TriggerBankName`, `Trb3BankName`, `Seq2BankName`, `McVertexBankName`: `name != "…"`. -/
def literalName (lit : String) (cs : List Nat) : Outcome Unit Unit :=
  if cs ≠ codes lit then .err () else .ok ()

def seq2BankName (cs : List Nat) : Outcome Unit Unit := literalName Generated.seq2Name cs

/-- `MainEventBankName::try_from`: dispatch on the first character. -/
def mainName (cs : List Nat) : Outcome MainErr Name :=
  if cs.head? = some 65 then
    mapOut (fun _ => .badTrigger) (fun _ => ⟨.trg, 0, 0⟩) (literalName triggerName cs)
  else if cs.head? = some 66 ∨ cs.head? = some 67 then
    mapOut .badAlpha16 id (alpha16Name cs)
  else if cs.head? = some 80 then
    mapOut .badPadwing (fun b => ⟨.padwing, b, 0⟩) (padwingName cs)
  else if cs.head? = some 84 then
    mapOut (fun _ => .badTrb3) (fun _ => ⟨.trb3, 0, 0⟩) (literalName trb3Name cs)
  else if cs.head? = some 77 then
    mapOut (fun _ => .badMcVertex) (fun _ => ⟨.mcvx, 0, 0⟩) (literalName mcVertexName cs)
  else .err .patternMismatch

/-- `MainEventBankName::try_from(&str)`. -/
def parseBankName (s : String) : Outcome MainErr Name := mainName (codes s)

/-- Rows of `chronoboxBanks` as scalar values. -/
def cbBankCodes : List (List Nat × List Nat) := chronoboxBanks.map (fun p => (codes p.1, codes p.2))

/-- `ChronoboxBankName::try_from`: a string match; each arm unwraps
`chronobox::BoardId::try_from("cb0N")`. Result: row of `CHRONOBOX_NAMES`. -/
def chronoboxNameAux : List (List Nat × List Nat) → List Nat → Outcome Unit Nat
  | [], _ => .err ()
  | (bank, board) :: rest, cs =>
    if cs = bank then
      need "midas:chronobox-board-unwrap" (lookupIdx cbCodes board).isSome <|
      .ok ((lookupIdx cbCodes board).getD 0)
    else chronoboxNameAux rest cs

def chronoboxName (cs : List Nat) : Outcome Unit Nat := chronoboxNameAux cbBankCodes cs

def parseChronoboxBankName (s : String) : Outcome Unit Nat := chronoboxName (codes s)
def parseSeq2BankName (s : String) : Outcome Unit Unit := seq2BankName (codes s)

/-- `EventId::try_from(u16)` → variant name. -/
def eventId (n : Nat) : Outcome Unit String :=
  match eventIds.find? (fun p => p.1 == n) with
  | some p => .ok p.2
  | none => .err ()

end AlphaG.BankName
