import AlphaG.Model.TrackInit
/-
C14c — the REST of the track fit and of the vertex fit: argmin 0.8.1's Nelder–Mead solver and
executor exactly as `fit_cluster_to_helix` (physics/src/reconstruction/track_fitting.rs) and
`find_vertices` (physics/src/reconstruction/vertex_fitting.rs) drive them, the two cost functions,
and the glue that turns the minimiser's answer into a `Track` / a `VertexInfo`. Over a generic
carrier (`NOps α` for the solver, `FOps α` for the fits); the `Float` instance lives in the driver.

What was read (crates actually compiled in: argmin 0.8.1 with `default-features = false`,
argmin-math 0.3.0, uom 0.35.0, rustc 1.95):

* `NelderMead::new(simplex)` stores `(p, NaN)` per vertex; `alpha = 1`, `gamma = 2`, `rho = 0.5`,
  `sigma = 0.5`; `with_sd_tolerance(tol)` is `Err` iff `tol < 0` (the caller `unwrap`s).
* `Executor::new(problem, solver).configure(|s| s.max_iters(n)).run()`:
  `IterState::new()` has `best_param = None`, `cost = best_cost = +inf`, `target_cost = -inf`,
  `iter = 0`. `run` calls `solver.init`, `state.update()`, then loops
  `terminate_internal` → `next_iter` → `update` → `iter += 1`. No observers, no checkpoint, no
  ctrl-c handler (feature off), timing does not influence the result.
* `terminate_internal`: (1) the solver's own `terminate` (sample standard deviation of the vertex
  costs `< sd_tolerance`), (2) `iter >= max_iters`, (3) `best_cost <= target_cost`.
* `IterState::update`: the current `(param, cost)` becomes the best iff
  `cost < best_cost || (cost.is_infinite() && best_cost.is_infinite() && same sign)` — a strict
  `<`: a new vertex with the *same* cost never replaces the recorded best parameter. A NaN cost is
  never accepted; if nothing was ever accepted `best_param` stays `None` and the caller's
  `res.state.best_param.unwrap()` panics.
* `init`: `cost` of every vertex in order (`.unwrap()` on the `Result`; the cost functions here never
  return `Err`), `sort_param_vecs`, `state.param(params[0]).cost(params[0].1)`.
* `sort_param_vecs`: `sort_by(|a, b| a.1.partial_cmp(&b.1).unwrap_or(Equal))` — the std *stable*
  sort; for slices of at most 20 elements (7 and 4 here) it is `insertion_sort_shift_left(v, 1, ..)`:
  element `i` is moved left while `is_less(v[i], v[j-1])`, where `is_less(a, b)` is
  `compare(a, b) == Less`, i.e. `a.1 < b.1` (false on NaN). `insRev` below is that loop (on the
  reversed sorted prefix), so the model is exact even for NaN costs as long as the simplex has at most
  20 vertices; for a cost that is never NaN the comparator is a strict weak order and every stable
  sort gives the same result.
* `calculate_centroid`: `params[1..n-1]` are added to a clone of `params[0]` one after the other
  (`acc.add(&p)`), then *multiplied* by `1.0 / (n-1) as f64` (not divided).
* `reflect = x0 + (x0 - x) * alpha`, `expand = x0 + (x - x0) * gamma`, `contract = x0 + (x - x0) * rho`,
  `shrink`: every vertex but the first becomes `x0 + (p - x0) * sigma` with `x0 = params[0]` (the best
  vertex, not the centroid) and is re-evaluated, in order.
* argmin-math on `Vec<f64>`: `add` asserts `n1 > 0`, `n2 > 0`, `n1 == n2`, `sub` asserts `n1 > 0`,
  `n1 == n2`, both then `zip`; `mul(&f64)` is `a * s` elementwise and never panics.
* `next_iter`: the branch structure is copied literally, including the final
  `else { return Err(PotentialBug "Reached unreachable point") }`, which *is* reachable when a
  comparison involves NaN; the caller's `.run().unwrap()` turns it into a panic.
* `terminate`: `n = len as f64`, `c0 = Σ c / n`, `s = sqrt(1/(n-1) * Σ (c - c0)²)` (`powi(2)` is one
  multiplication), `f64::sum` folds from `-0.0`.
* uom: `Length::new::<meter>(v)`, `get::<meter>()` are the identity on the value, `powi(P2)` is
  `v * v`, `Sum` is `f64::sum` (from `-0.0`), see Model/TrackInit.lean.

Every `unwrap` / index / assert site of the code above is a guard with its own site name
(`site*` below); Props/C14c proves which of them are unreachable and when the others fire.
Core Lean only.
-/
namespace AlphaG.NelderMead
open AlphaG
open AlphaG.Helix (HOps Point Params px py helixAt closestT)
open AlphaG.TrackInit (TOps TrackP FitError fitInit threeTemplatePoints vertexInit)

/-- The operations argmin's Nelder–Mead and `IterState` perform on the cost type `F = f64` and on
the parameter entries. -/
structure NOps (α : Type) where
  add : α → α → α
  sub : α → α → α
  mul : α → α → α
  div : α → α → α
  sqrt : α → α
  /-- `<` -/
  lt : α → α → Bool
  /-- `<=` (`a >= b` is `le b a`) -/
  le : α → α → Bool
  /-- `is_infinite` -/
  isInf : α → Bool
  /-- `is_sign_positive` -/
  signPos : α → Bool
  /-- `usize as f64` -/
  ofNat : Nat → α
  zero : α
  one : α
  two : α
  /-- `0.5` (`rho`, `sigma`) -/
  half : α
  /-- `F::infinity()` -/
  inf : α
  /-- `F::neg_infinity()` (default `target_cost`) -/
  negInf : α
  /-- `-0.0`, the start of `f64::sum` -/
  negZero : α

/-- A vertex of the simplex with its cost, `(P, F)`. -/
abbrev Vertex (α : Type) := List α × α

/-- `enum Action` of neldermead/mod.rs. -/
inductive Action where
  | reflection
  | expansion
  | contractionOutside
  | contractionInside
  | shrink
deriving Repr, DecidableEq

def siteSdTol : String := "fit:with_sd_tolerance_unwrap"
def siteInitIndex : String := "neldermead:init:params_index"
def siteIndex : String := "neldermead:next_iter:params_index"
def siteVecAdd : String := "argmin_math:vec_add_assert"
def siteVecSub : String := "argmin_math:vec_sub_assert"
def siteUnreachable : String := "neldermead:unreachable_point:run_unwrap"
def siteBestParam : String := "fit:best_param_unwrap"
def siteBestIndex : String := "fit:best_params_index"
def siteCostIndex : String := "cost_function:param_index"
def siteTrackNaN : String := "track_fitting:cost_function:nan_assert"
def siteVertexNaN : String := "vertex_fitting:cost_function:nan_assert"

section Solver
variable {α ε : Type} (o : NOps α)

/-! ### argmin-math on `Vec<f64>` -/

/-- `a.add(&b)`: `assert!(n1 > 0); assert!(n2 > 0); assert_eq!(n1, n2); zip`. -/
def vadd (a b : List α) : Outcome ε (List α) :=
  if a.length = 0 ∨ b.length = 0 ∨ a.length ≠ b.length then .panic siteVecAdd
  else .ok (List.zipWith o.add a b)

/-- `a.sub(&b)`: `assert!(n1 > 0); assert_eq!(n1, n2); zip`. -/
def vsub (a b : List α) : Outcome ε (List α) :=
  if a.length = 0 ∨ a.length ≠ b.length then .panic siteVecSub
  else .ok (List.zipWith o.sub a b)

/-- `a.mul(&s)`: `a_i * s`. -/
def vscale (a : List α) (s : α) : List α := a.map (fun x => o.mul x s)

/-- `x0.add(&a.sub(b).mul(&k))` = `x0 + (a - b) * k`. -/
def affine (x0 a b : List α) (k : α) : Outcome ε (List α) :=
  (vsub o a b : Outcome ε (List α)).bind fun d => vadd o x0 (vscale o d k)

/-- `reflect(x0, x) = x0 + (x0 - x) * alpha`, `alpha = 1.0`. -/
def reflect (x0 x : List α) : Outcome ε (List α) := affine o x0 x0 x o.one
/-- `expand(x0, x) = x0 + (x - x0) * gamma`, `gamma = 2.0`. -/
def expand (x0 x : List α) : Outcome ε (List α) := affine o x0 x x0 o.two
/-- `contract(x0, x) = x0 + (x - x0) * rho`, `rho = 0.5`. -/
def contract (x0 x : List α) : Outcome ε (List α) := affine o x0 x x0 o.half

/-! ### `sort_param_vecs` -/

/-- `insert_tail` of the std insertion sort on the *reversed* sorted prefix: the new element moves
past `y` while `x.1 < y.1`. -/
def insRev (x : Vertex α) : List (Vertex α) → List (Vertex α)
  | [] => [x]
  | y :: ys => if o.lt x.2 y.2 then y :: insRev x ys else x :: y :: ys

/-- `sort_param_vecs` (`insertion_sort_shift_left(v, 1, |a, b| a.1 < b.1)`). -/
def sortSimplex (s : List (Vertex α)) : List (Vertex α) :=
  (s.foldl (fun acc x => insRev o x acc) []).reverse

/-! ### `calculate_centroid`, `shrink`, `next_iter` -/

/-- `fold(acc, |acc, p| acc.add(&p.0))`. -/
def foldAdd : List α → List (List α) → Outcome ε (List α)
  | acc, [] => .ok acc
  | acc, p :: ps => (vadd o acc p : Outcome ε (List α)).bind fun a => foldAdd a ps

/-- `calculate_centroid`: all vertices but the last, `* (1.0 / (len - 1) as f64)`. -/
def centroid (s : List (Vertex α)) : Outcome ε (List α) :=
  match s with
  | [] => .panic siteIndex
  | p0 :: rest =>
    (foldAdd o p0.1 (rest.dropLast.map Prod.fst) : Outcome ε (List α)).bind fun a =>
      .ok (vscale o a (o.div o.one (o.ofNat (s.length - 1))))

/-- `*self.params.last_mut().unwrap() = v`. -/
def replaceLast (s : List (Vertex α)) (v : Vertex α) : List (Vertex α) := s.dropLast ++ [v]

/-- The `try_for_each` of `shrink` over `params[1..]`. -/
def shrinkTail (cost : List α → Outcome ε α) (x0 : List α) : List (Vertex α) → Outcome ε (List (Vertex α))
  | [] => .ok []
  | v :: vs =>
    (affine o x0 v.1 x0 o.half : Outcome ε (List α)).bind fun p =>
      (cost p).bind fun c =>
        (shrinkTail cost x0 vs).bind fun r => .ok ((p, c) :: r)

/-- `shrink`: `x0 = params[0].0.clone()`; the best vertex is not modified. -/
def shrink (cost : List α → Outcome ε α) (s : List (Vertex α)) : Outcome ε (List (Vertex α)) :=
  match s with
  | [] => .panic siteIndex
  | v0 :: vs => (shrinkTail o cost v0.1 vs).bind fun r => .ok (v0 :: r)

/-- `next_iter` up to (not including) the final `sort_param_vecs`. -/
def nextIter (cost : List α → Outcome ε α) (s : List (Vertex α)) : Outcome ε (List (Vertex α) × Action) :=
  match s.head?, s.dropLast.getLast?, s.getLast? with
  | some b, some sw, some w =>
    (centroid o s : Outcome ε (List α)).bind fun x0 =>
    (reflect o x0 w.1 : Outcome ε (List α)).bind fun xr =>
    (cost xr).bind fun cr =>
      if o.lt cr sw.2 && o.le b.2 cr then .ok (replaceLast s (xr, cr), .reflection)
      else if o.lt cr b.2 then
        (expand o x0 xr : Outcome ε (List α)).bind fun xe =>
        (cost xe).bind fun ce =>
          .ok (replaceLast s (if o.lt ce cr then (xe, ce) else (xr, cr)), .expansion)
      else if o.le sw.2 cr then
        if o.lt cr w.2 then
          (contract o x0 xr : Outcome ε (List α)).bind fun xc =>
          (cost xc).bind fun cc =>
            if o.le cc cr then .ok (replaceLast s (xc, cc), .contractionOutside)
            else (shrink o cost s).bind fun s' => .ok (s', .shrink)
        else
          (contract o x0 w.1 : Outcome ε (List α)).bind fun xc =>
          (cost xc).bind fun cc =>
            if o.lt cc w.2 then .ok (replaceLast s (xc, cc), .contractionInside)
            else (shrink o cost s).bind fun s' => .ok (s', .shrink)
      else .panic siteUnreachable
  | _, _, _ => .panic siteIndex

/-! ### `terminate`, `IterState`, the executor loop -/

/-- `iter.sum::<f64>()`. -/
def fsum (l : List α) : α := l.foldl o.add o.negZero

/-- `Σ c / n`. -/
def meanCost (s : List (Vertex α)) : α := o.div (fsum o (s.map Prod.snd)) (o.ofNat s.length)

/-- The sample standard deviation of the vertex costs as `terminate` computes it. -/
def costSd (s : List (Vertex α)) : α :=
  o.sqrt (o.mul (o.div o.one (o.sub (o.ofNat s.length) o.one))
    (fsum o (s.map fun v => o.mul (o.sub v.2 (meanCost o s)) (o.sub v.2 (meanCost o s)))))

/-- `NelderMead::terminate`: `s < sd_tolerance`. -/
def sdConverged (tol : α) (s : List (Vertex α)) : Bool := o.lt (costSd o s) tol

/-- The part of `IterState` that influences the result, plus the list of actions taken (most recent
first; bookkeeping only). `simplex` is the solver's `params`; `state.param`/`state.cost` are always
its first entry. -/
structure State (α : Type) where
  simplex : List (Vertex α)
  bestParam : Option (List α)
  bestCost : α
  trace : List Action

/-- The acceptance test of `IterState::update`. -/
def accepts (c best : α) : Bool :=
  o.lt c best || (o.isInf c && o.isInf best && (o.signPos c == o.signPos best))

/-- `state.param(v.0).cost(v.1)` followed by `state.update()`. -/
def update (bp : Option (List α)) (bc : α) (v : Vertex α) : Option (List α) × α :=
  if accepts o v.2 bc then (some v.1, v.2) else (bp, bc)

/-- `params.iter_mut().for_each(|(p, c)| *c = problem.cost(p).unwrap())`. -/
def evalAll (cost : List α → Outcome ε α) : List (List α) → Outcome ε (List (Vertex α))
  | [] => .ok []
  | p :: ps => (cost p).bind fun c => (evalAll cost ps).bind fun r => .ok ((p, c) :: r)

/-- `Solver::init` + the executor's first `state.update()`. -/
def init (cost : List α → Outcome ε α) (simplex : List (List α)) : Outcome ε (State α) :=
  (evalAll cost simplex).bind fun vs =>
    match sortSimplex o vs with
    | [] => .panic siteInitIndex
    | v :: rest => .ok ⟨v :: rest, (update o none o.inf v).1, (update o none o.inf v).2, []⟩

/-- `terminate_internal` for an iteration counter that has not reached `max_iters`. -/
def stops (tol : α) (st : State α) : Bool :=
  sdConverged o tol st.simplex || o.le st.bestCost o.negInf

/-- One pass of the executor loop body: `next_iter` (with its final sort) and `state.update()`. -/
def step (cost : List α → Outcome ε α) (st : State α) : Outcome ε (State α) :=
  (nextIter o cost st.simplex).bind fun r =>
    match sortSimplex o r.1 with
    | [] => .panic siteIndex
    | v :: rest =>
      .ok ⟨v :: rest, (update o st.bestParam st.bestCost v).1, (update o st.bestParam st.bestCost v).2,
        r.2 :: st.trace⟩

/-- The executor loop; `fuel` is `max_iters - iter`. -/
def loop (cost : List α → Outcome ε α) (tol : α) : Nat → State α → Outcome ε (State α)
  | 0, st => .ok st
  | fuel + 1, st =>
    if stops o tol st then .ok st
    else (step o cost st).bind fun st' => loop cost tol fuel st'

/-- `NelderMead::new(simplex).with_sd_tolerance(tol).unwrap()`,
`Executor::new(problem, solver).configure(|s| s.max_iters(maxIters)).run().unwrap()`: the final
state. -/
def run (cost : List α → Outcome ε α) (tol : α) (maxIters : Nat) (simplex : List (List α)) :
    Outcome ε (State α) :=
  if o.lt tol o.zero then .panic siteSdTol
  else (init o cost simplex).bind fun st0 => loop o cost tol maxIters st0

/-- `… .state.best_param.unwrap()`. -/
def minimize (cost : List α → Outcome ε α) (tol : α) (maxIters : Nat) (simplex : List (List α)) :
    Outcome ε (List α) :=
  (run o cost tol maxIters simplex).bind fun st =>
    match st.bestParam with
    | none => .panic siteBestParam
    | some p => .ok p

end Solver

/-! ## The two fits -/

/-- Everything the fits need: the operations of the initial-guess stage plus what the solver and the
cost functions use on top. -/
structure FOps (α : Type) where
  t : TOps α
  sqrt : α → α
  le : α → α → Bool
  isInf : α → Bool
  signPos : α → Bool
  isNaN : α → Bool
  half : α
  inf : α
  negInf : α

section Fits
variable {α : Type} (o : FOps α)

/-- The solver's operations, taken from the same arithmetic. -/
def FOps.n : NOps α where
  add := o.t.h.add
  sub := o.t.h.sub
  mul := o.t.h.mul
  div := o.t.h.div
  sqrt := o.sqrt
  lt := o.t.h.lt
  le := o.le
  isInf := o.isInf
  signPos := o.signPos
  ofNat := o.t.ofNat
  zero := o.t.h.zero
  one := o.t.h.one
  two := o.t.h.two
  half := o.half
  inf := o.inf
  negInf := o.negInf
  negZero := o.t.negZero

/-- `norm_sqr(sp, c)`: `(c.x - sp.x())² + (c.y - sp.y())² + (c.z - sp.z)²`. -/
def normSqr (p : Point α) (c : α × α × α) : α :=
  o.t.h.add
    (o.t.h.add (o.t.h.mul (o.t.h.sub c.1 (px o.t.h p)) (o.t.h.sub c.1 (px o.t.h p)))
               (o.t.h.mul (o.t.h.sub c.2.1 (py o.t.h p)) (o.t.h.sub c.2.1 (py o.t.h p))))
    (o.t.h.mul (o.t.h.sub c.2.2 p.z) (o.t.h.sub c.2.2 p.z))

/-- `helix.closest_t(p, ..)`, `helix.at(t)`, `norm_sqr(p, closest_point)`. -/
def distSq (ctTol : α) (ctIters : Nat) (q : Params α) (p : Point α) : α :=
  normSqr o p (helixAt o.t.h q (closestT o.t.h q p ctTol ctIters))

/-- `.map(|..| { …; assert!(!val.is_nan()); val }).sum()`: the terms are produced, checked and
added one at a time. -/
def sumChecked {ε : Type} (site : String) : α → List α → Outcome ε α
  | acc, [] => .ok acc
  | acc, v :: vs => if o.isNaN v then .panic site else sumChecked site (o.t.h.add acc v) vs

/-- The helix `[x0, y0, z0, r, phi0, h]` of a parameter vector (`p[0] … p[5]`). -/
def paramsOf (p : List α) : Params α :=
  ⟨p.getD 0 o.t.h.zero, p.getD 1 o.t.h.zero, p.getD 2 o.t.h.zero, p.getD 3 o.t.h.zero,
   p.getD 4 o.t.h.zero, p.getD 5 o.t.h.zero⟩

/-- `impl CostFunction for Problem` of track_fitting.rs. -/
def trackCost {ε : Type} (ctTol : α) (ctIters : Nat) (pts : List (Point α)) (p : List α) : Outcome ε α :=
  if p.length < 6 then .panic siteCostIndex
  else sumChecked o siteTrackNaN o.t.negZero (pts.map (distSq o ctTol ctIters (paramsOf o p)))

/-- `fit_cluster_to_helix(cluster, maxIters, sdTol, delta, ctIters, ctTol)`, end to end. -/
def fitCluster (maxIters : Nat) (sdTol delta : α) (ctIters : Nat) (ctTol : α) (pts : List (Point α)) :
    Outcome FitError (TrackP α) :=
  match fitInit o.t delta pts with
  | .ok simplex =>
    match threeTemplatePoints o.t pts with
    | .ok (f, _, l) =>
      (minimize o.n (trackCost o ctTol ctIters pts) sdTol maxIters simplex).bind fun best =>
        if best.length < 6 then .panic siteBestIndex
        else .ok ⟨paramsOf o best, closestT o.t.h (paramsOf o best) f ctTol ctIters,
                  closestT o.t.h (paramsOf o best) l ctTol ctIters⟩
    | .err e => .err e
    | .panic s => .panic s
  | .err e => .err e
  | .panic s => .panic s

/-- `SpacePoint { r: x.hypot(y), phi: y.atan2(x), z }` of a coordinate vector `[x, y, z]`. -/
def vertexPoint (p : List α) : Point α :=
  ⟨o.t.h.hypot (p.getD 0 o.t.h.zero) (p.getD 1 o.t.h.zero),
   o.t.h.atan2 (p.getD 1 o.t.h.zero) (p.getD 0 o.t.h.zero), p.getD 2 o.t.h.zero⟩

/-- `impl CostFunction for Problem` of vertex_fitting.rs. -/
def vertexCost {ε : Type} (ctTol : α) (ctIters : Nat) (tracks : List (TrackP α)) (p : List α) : Outcome ε α :=
  if p.length < 3 then .panic siteCostIndex
  else sumChecked o siteVertexNaN o.t.negZero
    (tracks.map fun t => distSq o ctTol ctIters t.q (vertexPoint o p))

/-- A fitted vertex: position `[x, y, z]`, and per track of the cluster the `t` of closest approach. -/
structure VertexFit (α : Type) where
  position : α × α × α
  cluster : List Nat
  ts : List α

/-- The closure passed to `.map(..)` in `find_vertices`: run the minimiser on the chosen cluster. -/
def fitVertex (maxIters : Nat) (sdTol : α) (ctIters : Nat) (ctTol : α) (tracks : List (TrackP α))
    (simplex : List (List α)) : Outcome Unit ((α × α × α) × List α) :=
  (minimize o.n (vertexCost o ctTol ctIters tracks) sdTol maxIters simplex).bind fun best =>
    if best.length < 3 then .panic siteBestIndex
    else .ok ((best.getD 0 o.t.h.zero, best.getD 1 o.t.h.zero, best.getD 2 o.t.h.zero),
              tracks.map fun t => closestT o.t.h t.q (vertexPoint o best) ctTol ctIters)

/-- `find_vertices` up to and including the fitted primary vertex (the remainder bookkeeping is
`Vertexing.findVertices`, C15). -/
def findVertexFit (minLen maxDca maxDist delta : α) (ctIters : Nat) (ctTol : α) (maxIters : Nat) (sdTol : α)
    (ts : Array (TrackP α)) (dflt : TrackP α) : Outcome Unit (Option (VertexFit α)) :=
  match vertexInit o.t minLen maxDca maxDist delta ts dflt with
  | .ok none => .ok none
  | .ok (some (c, simplex)) =>
    (fitVertex o maxIters sdTol ctIters ctTol (c.map fun i => ts.getD i dflt) simplex).bind fun r =>
      .ok (some ⟨r.1, c, r.2⟩)
  | .err e => .err e
  | .panic s => .panic s

end Fits

end AlphaG.NelderMead
