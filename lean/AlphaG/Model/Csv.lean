import AlphaG.Model.Basic
/-
Models of the row logic of the analysis binaries (analysis/src/lib.rs `sort_run_files`,
alpha-g-vertices / alpha-g-trg-scalers `scan`, alpha-g-chronobox-timestamps `chronobox_time`
and the `split_inclusive` row loop). Core Lean only.
-/
namespace AlphaG.Csv

/-! ### `sort_run_files` -/

/-- What `sort_run_files` reads from the first 12 bytes of each file, plus the file's identity
(index in the argument list) and whether its extension is known (`mid`/`lz4`). -/
structure FileHead where
  id : Nat
  extKnown : Bool
  run : Nat
  t0 : Nat
deriving Repr, DecidableEq

inductive SortErr where
  | unknownExtension (id : Nat)
  | badRunNumber (id : Nat)
  | duplicateInitialTimestamp
deriving Repr, DecidableEq

/-- Insertion sort by initial timestamp; `sort_unstable_by_key` gives *some* sorted permutation,
the theorems are stated for any sorted permutation (see `Props/C19.lean`). -/
def insertByT0 (f : FileHead) : List FileHead → List FileHead
  | [] => [f]
  | g :: gs => if f.t0 ≤ g.t0 then f :: g :: gs else g :: insertByT0 f gs

def sortByT0 : List FileHead → List FileHead
  | [] => []
  | f :: fs => insertByT0 f (sortByT0 fs)

/-- Adjacent duplicate check `files.windows(2)`. -/
def hasAdjacentDup : List FileHead → Bool
  | a :: b :: rest => a.t0 == b.t0 || hasAdjacentDup (b :: rest)
  | _ => false

/-- `sort_run_files` on an already sorted permutation `sorted` of `files`: the extension of
every file is checked first (in argument order, inside the `collect`), then every run number
against the first argument's, then adjacent duplicates. Panics on an empty list
(`assert!(!files.is_empty())`). -/
def sortRunFilesWith (files sorted : List FileHead) : Outcome SortErr (Nat × List Nat) :=
  match files.find? (fun f => !f.extKnown) with
  | some f => .err (.unknownExtension f.id)
  | none =>
    match files.head? with
    | none => .panic "analysis:sort_run_files:assert-nonempty"
    | some first =>
      match files.find? (fun f => f.run != first.run) with
      | some f => .err (.badRunNumber f.id)
      | none =>
        if hasAdjacentDup sorted then .err .duplicateInitialTimestamp
        else .ok (first.run, sorted.map (·.id))

def sortRunFiles (files : List FileHead) : Outcome SortErr (Nat × List Nat) :=
  sortRunFilesWith files (sortByT0 files)

/-! ### The `scan` that unwraps the 32-bit TRG timestamp -/

/-- `a.wrapping_sub(b)` on `u32` (for `a, b < 2^32`). -/
def wsub32 (a b : Nat) : Nat := (a + 2 ^ 32 - b) % 2 ^ 32

/-- One main event as seen by the scan: serial number and the decoded timestamp, if any. -/
structure Ev where
  serial : Nat
  ts : Option Nat
deriving Repr, DecidableEq

/-- Scan state `(previous, cumulative)`. -/
structure ScanState where
  previous : Option Nat
  cumulative : Nat
deriving Repr, DecidableEq

/-- `current = timestamp.unwrap_or(previous.unwrap_or(0))`. -/
def current (s : ScanState) (e : Ev) : Nat := e.ts.getD (s.previous.getD 0)

/-- `delta = current.wrapping_sub(previous.unwrap_or(current))`. -/
def delta (s : ScanState) (e : Ev) : Nat := wsub32 (current s e) (s.previous.getD (current s e))

def next (s : ScanState) (e : Ev) : ScanState :=
  { previous := some (current s e), cumulative := s.cumulative + delta s e }

/-- A row: serial number and, for decodable events, the cumulative clock count whose quotient
by 62.5 MHz is `trg_time`. -/
structure Row where
  serial : Nat
  cum : Option Nat
deriving Repr, DecidableEq

def rowOf (s : ScanState) (e : Ev) : Row :=
  { serial := e.serial, cum := if e.ts.isSome then some (next s e).cumulative else none }

def scanFrom (s : ScanState) : List Ev → List Row
  | [] => []
  | e :: es => rowOf s e :: scanFrom (next s e) es

def scanRows (es : List Ev) : List Row := scanFrom { previous := none, cumulative := 0 } es

/-- An event of a MIDAS file as the binaries see it: event id and, for main events, the
serial number and decode result. -/
structure FileEvent where
  eventId : Nat
  ev : Ev
deriving Repr, DecidableEq

/-- `filter(EventId::Main)`: event id 1. -/
def mainEvents (evs : List FileEvent) : List Ev := (evs.filter (·.eventId == 1)).map (·.ev)

/-- Rows of a run: files in sorted order, main events in file order, one scan across files. -/
def rowsOfRun (filesInOrder : List (List FileEvent)) : List Row :=
  scanRows (filesInOrder.flatMap mainEvents)

/-! ### alpha-g-chronobox-timestamps -/

structure Marker where
  top : Bool
  counter : Nat
deriving Repr, DecidableEq

structure Tsc where
  channel : Nat
  /-- `timestamp()`: 24 bits with bit 0 cleared -/
  timestamp : Nat
  leading : Bool
deriving Repr, DecidableEq

inductive Entry where
  | ts (t : Tsc)
  | marker (m : Marker)
deriving Repr, DecidableEq

/-- `chronobox_time` in clock ticks (the program divides by 10 MHz, one IEEE division). -/
def chronoboxTime (tsc : Tsc) (previous next : Option Marker) : Option Nat :=
  match previous, next with
  | some p, some n =>
    if p.counter + 1 = n.counter ∧ p.top ≠ n.top then
      if decide (tsc.timestamp >>> 23 = 1) ≠ p.top then
        some (tsc.timestamp + ((p.counter + 1) / 2) * 2 ^ 24)
      else none
    else none
  | _, _ => none

structure CbRow where
  channel : Nat
  leading : Bool
  time : Option Nat
deriving Repr, DecidableEq

def rowFor (previous next : Option Marker) (t : Tsc) : CbRow :=
  { channel := t.channel, leading := t.leading, time := chronoboxTime t previous next }

/-- The `split_inclusive(marker)` / `split_last` loop (after fix 80227a4): timestamps are
buffered until the marker that closes their chunk; the final chunk has no next marker.
Within a chunk only timestamps precede the closing marker. -/
def rowsGo (previous : Option Marker) (pending : List Tsc) : List Entry → List CbRow
  | [] => pending.map (rowFor previous none)
  | .ts t :: rest => rowsGo previous (pending ++ [t]) rest
  | .marker m :: rest => pending.map (rowFor previous (some m)) ++ rowsGo (some m) [] rest

inductive CbErr where
  | badFifo | missingEpoch0 | badFirstMarker
deriving Repr, DecidableEq

def isEpoch0 : Entry → Bool
  | .marker m => m.counter == 0
  | _ => false

/-- Per board: the remainder of the FIFO parse must be empty, everything before the first
counter-0 marker is dropped, that marker must have a clear top bit. -/
def boardRows (remainderEmpty : Bool) (fifo : List Entry) : Outcome CbErr (List CbRow) :=
  if !remainderEmpty then .err .badFifo else
  match fifo.dropWhile (fun e => !isEpoch0 e) with
  | [] => .err .missingEpoch0
  | .marker m :: rest =>
    if m.top then .err .badFirstMarker else .ok (rowsGo none [] (.marker m :: rest))
  | .ts _ :: _ => .panic "chronobox-timestamps:unreachable"

end AlphaG.Csv
