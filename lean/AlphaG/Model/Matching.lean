import AlphaG.Model.Deconv
import AlphaG.Model.Ranges
/-
Model of `physics/src/matching.rs` (`wire_to_pad_column`, `pad_column_to_wires`,
`wire_hits_at_t`, `pad_hits_at_t`, `match_column_inputs`) and of `MainEvent::avalanches`
(`physics/src/lib.rs`), over the law-free carrier of `Model/Deconv.lean` extended by the
geometry operations (`ln`, the pad pitch, `TpcPadRow::z`).

Modelling decisions (each is tied to the code by the C13 oracle, implementation against
implementation):
* fixed-size arrays are functions of the index (`wires : Nat → Option (List α)`, `pads : column
  → row → Option (List α)`); only indices `< 256`, `< 32`, `< 576` are ever read;
* an avalanche carries the *wire index* and the *time bin* instead of `phi` and `t`: both are
  functions of the index only (`TpcWirePosition::phi`, `t as f64 / ADC32_RATE`);
* `deconvBlock` (stands for `y_matrix` + Cholesky + per-channel `ls_deconvolution`, i.e.
  `Deconv.wireSignalsDeconv`) and `padDeconv` are arbitrary functions of the signal sequence;
* `sort_unstable_by(|a, b| b.amplitude.partial_cmp(&a.amplitude).unwrap())`: the comparator reads
  the amplitudes only and the std implementation is deterministic, so the permutation applied is
  a function `Sorter.perm` of the *sequence of keys*; nothing else is assumed about it unless a
  theorem says so (`IsDescSort`). The `unwrap` cannot fail in `f64`: every hit amplitude passed
  a `> 0.0` test, hence is not NaN.
-/
namespace AlphaG.Matching
open AlphaG.Deconv AlphaG.Ranges

def nWires : Nat := 256
def nColumns : Nat := 32
def nRows : Nat := 576
/-- `WIRES_PER_COLUMN = TPC_ANODE_WIRES / TPC_PAD_COLUMNS` -/
def wiresPerColumn : Nat := 8
/-- `WIRE_SHIFT` -/
def wireShift : Nat := 8

/-- `wire.wrapping_sub(WIRE_SHIFT) & 0xff` then `/ WIRES_PER_COLUMN` (`usize` is 64 bit). -/
def wireToPadColumn (wire : Nat) : Nat :=
  (((wire + 2 ^ 64 - wireShift) % 2 ^ 64) &&& 0xff) / wiresPerColumn

/-- `pad_column_to_wires`: the range `first..first + WIRES_PER_COLUMN` as `(first, last)`. -/
def padColumnToWires (padColumn : Nat) : Nat × Nat :=
  (((padColumn * wiresPerColumn) + wireShift) &&& 0xff,
   (((padColumn * wiresPerColumn) + wireShift) &&& 0xff) + wiresPerColumn)

/-- Geometry operations of the carrier used by `pad_hits_at_t`. -/
structure Geo (α : Type) where
  log : α → α
  ofNat : Nat → α
  half : α
  two : α
  /-- `PAD_PITCH_Z` -/
  width : α
  /-- `0.5 * DETECTOR_LENGTH` -/
  halfLength : α

variable {α : Type} (o : Ops α) (g : Geo α)

/-- `TpcPadRow::z`: `(row as f64 + 0.5) * PAD_PITCH_Z - DETECTOR_HALF_LENGTH`. -/
def rowZ (row : Nat) : α := o.sub (o.mul (o.add (g.ofNat row) g.half) g.width) g.halfLength

structure WireHit (α : Type) where
  wire : Nat
  amplitude : α

structure PadHit (α : Type) where
  z : α
  amplitude : α

structure Avalanche (α : Type) where
  t : Nat
  wire : Nat
  z : α
  wireAmp : α
  padAmp : α

/-- `input.get(t).copied().unwrap_or(0.0)` -/
def sampleAt (inp : List α) (t : Nat) : α := inp.getD t o.zero

/-- `wire_hits_at_t`: `input.get(t).copied().filter(|v| v > &0.0)` over the zipped
`(index, input)` pairs. -/
def wireHitsAtT (indices : List Nat) (inputs : List (List α)) (t : Nat) : List (WireHit α) :=
  (indices.zip inputs).filterMap fun p =>
    match p.2[t]? with
    | some v => if o.lt o.zero v then some ⟨p.1, v⟩ else none
    | none => none

/-- The hit test of `pad_hits_at_t`. -/
def isPeak (first middle last : α) : Bool :=
  o.lt o.zero first && o.lt o.zero last && o.lt first middle && o.lt last middle

/-- `sigma_squared = width² / ln(middle² / (first · last))` -/
def sigmaSq (first middle last : α) : α :=
  o.div (o.mul g.width g.width) (g.log (o.div (o.mul middle middle) (o.mul first last)))

/-- `z = TpcPadRow(row - 1).z + (sigma_squared / (2 · width)) · ln(last / first)` where `row` is
the row of `last`. -/
def hitZ (row : Nat) (first middle last : α) : α :=
  o.add (rowZ o g (row - 1))
    (o.mul (o.div (sigmaSq o g first middle last) (o.mul g.two g.width)) (g.log (o.div last first)))

/-- The `for (row, input) in ….enumerate().skip(2)` loop with its sliding `(first, middle)`. -/
def padHitsGo (t : Nat) : List (List α) → Nat → α → α → List (PadHit α)
  | [], _, _, _ => []
  | inp :: rest, row, first, middle =>
    (if isPeak o first middle (sampleAt o inp t) then
      [⟨hitZ o g row first middle (sampleAt o inp t), middle⟩] else [])
    ++ padHitsGo t rest (row + 1) middle (sampleAt o inp t)

/-- `pad_hits_at_t` over the rows of one pad column (576 in the code). -/
def padHitsAtT (column : List (List α)) (t : Nat) : List (PadHit α) :=
  match column with
  | r0 :: r1 :: rest => padHitsGo o g t rest 2 (sampleAt o r0 t) (sampleAt o r1 t)
  | _ => []

/-- The permutation an unstable sort applies, as a function of the key sequence. -/
structure Sorter (α : Type) where
  perm : List α → List Nat

def applyPerm {β : Type} (p : List Nat) (l : List β) : List β := p.filterMap fun i => l[i]?

/-- What a correct descending sort guarantees (used by the mirror theorems only). -/
def IsDescSort (s : Sorter α) : Prop :=
  ∀ keys : List α, (s.perm keys).Perm (List.range keys.length)
    ∧ (applyPerm (s.perm keys) keys).Pairwise (fun a b => o.lt a b = false)

variable (s : Sorter α)

def sortWireHits (l : List (WireHit α)) : List (WireHit α) :=
  applyPerm (s.perm (l.map (·.amplitude))) l

def sortPadHits (l : List (PadHit α)) : List (PadHit α) :=
  applyPerm (s.perm (l.map (·.amplitude))) l

/-- One iteration of the `for t in 0..t_max` loop of `match_column_inputs`. -/
def matchAtT (indices : List Nat) (wireInputs column : List (List α)) (t : Nat) :
    List (Avalanche α) :=
  if (wireHitsAtT o indices wireInputs t).isEmpty then []
  else
    List.zipWith (fun (w : WireHit α) (p : PadHit α) => ⟨t, w.wire, p.z, w.amplitude, p.amplitude⟩)
      (sortWireHits s (wireHitsAtT o indices wireInputs t))
      (sortPadHits s (padHitsAtT o g column t))

/-- `match_column_inputs` (`t_max` = longest wire input). -/
def matchColumn (indices : List Nat) (wireInputs column : List (List α)) : List (Avalanche α) :=
  (List.range (maxLen wireInputs)).flatMap (matchAtT o g s indices wireInputs column)

/-! ### `MainEvent::avalanches` -/

structure Event (α : Type) where
  wires : Nat → Option (List α)
  pads : Nat → Nat → Option (List α)

structure Params (α : Type) where
  /-- signals of one block in ring order ↦ deconvolved inputs in the same order -/
  deconvBlock : List (List α) → List (List α)
  padDeconv : List α → List α

variable (P : Params α)

def occupancy (ev : Event α) : List Bool := (List.range nWires).map fun w => (ev.wires w).isSome

/-- The signals of the wires `idxs` (`wire_signals[i].as_ref().unwrap()`: every index of a
range of `contiguous_ranges` is occupied — `ranges_cover`). -/
def blockSignals (ev : Event α) (idxs : List Nat) : List (List α) :=
  idxs.map fun i => (ev.wires i).getD []

/-- All `(i, input)` pairs in the order the two nested loops of `avalanches` visit them. -/
def assignments (ev : Event α) : List (Nat × List α) :=
  (contiguousRanges (occupancy ev)).flatMap fun r =>
    (rangeToIndices nWires r).zip (P.deconvBlock (blockSignals ev (rangeToIndices nWires r)))

/-- `wire_inputs[w]` after all assignments `wire_inputs[i] = input` (the last one wins; never
assigned: `Vec::new()`). -/
def wireInput (as : List (Nat × List α)) (w : Nat) : List α :=
  as.foldl (fun acc p => if p.1 = w then p.2 else acc) []

/-- Iteration order of the `BTreeSet` of pad columns: ascending, no duplicates. -/
def padColumns (as : List (Nat × List α)) : List Nat :=
  (List.range nColumns).filter fun c => as.any fun p => wireToPadColumn p.1 == c

/-- `pad_inputs_column` -/
def padInputs (ev : Event α) (column : Nat) : List (List α) :=
  (List.range nRows).map fun row =>
    match ev.pads column row with
    | some signal => P.padDeconv signal
    | none => []

/-- The wire indices `first..first + 8` of a pad column (`wire_inputs[wire_indices]` is in
bounds: `first` is a multiple of 8 below 256). -/
def columnWires (column : Nat) : List Nat :=
  List.range' (padColumnToWires column).1 ((padColumnToWires column).2 - (padColumnToWires column).1)

def avalanches (ev : Event α) : List (Avalanche α) :=
  (padColumns (assignments P ev)).flatMap fun c =>
    matchColumn o g s (columnWires c) ((columnWires c).map (wireInput (assignments P ev)))
      (padInputs P ev c)

/-- Rotation by `k` pad columns: wires by `8k`, pad columns by `k`. -/
def rot (k : Nat) (ev : Event α) : Event α where
  wires := fun w => ev.wires ((w + nWires - (wiresPerColumn * k) % nWires) % nWires)
  pads := fun c r => ev.pads ((c + nColumns - k % nColumns) % nColumns) r

/-- Mirror about the mid-plane: pad row `r ↦ 575 − r`. -/
def mirror (ev : Event α) : Event α where
  wires := ev.wires
  pads := fun c r => ev.pads c (nRows - 1 - r)

/-- The avalanche moved to the rotated wire. -/
def rotAvalanche (k : Nat) (a : Avalanche α) : Avalanche α :=
  { a with wire := (a.wire + wiresPerColumn * k) % nWires }

end AlphaG.Matching
