import AlphaG.Model.Basic
/-
Model of `TrgV3Packet::try_from(&[u8])` (detector/src/trigger.rs), transcribed check by
check in the order of the Rust code, with the code's *masks*; the specification
`TrgWellFormed` (Props/C06.lean) is phrased on *fields* from the documentation table.
-/
namespace AlphaG.Trg

structure Packet where
  udpCounter : Nat
  timestamp : Nat
  outputCounter : Nat
  inputCounter : Nat
  pulserCounter : Nat
  triggerBitmap : Nat
  nimBitmap : Nat
  esataBitmap : Nat
  satisfiedMlu : Bool
  aw16Prompt : Nat
  driftVetoCounter : Nat
  scaledownCounter : Nat
  aw16Multiplicity : Nat
  aw16Bus : Nat
  bsc64Bus : Nat
  bsc64Multiplicity : Nat
  coincidenceLatch : Nat
  firmwareRevision : Nat
deriving Repr, DecidableEq

inductive Err where
  | sliceLengthMismatch | headerMaskMismatch | footerMaskMismatch | trigOutMismatch
  | badTrigIn | badDriftCounter | badScaledownCounter | zeroMismatch
deriving Repr, DecidableEq

/-- Little-endian 32-bit word `i` (0..19) of the slice: `u32::from_le_bytes(slice[4i..4i+4])`. -/
def word (b : List UInt8) (i : Nat) : Nat := leAt b (4 * i) 4

def decode (b : List UInt8) : Outcome Err Packet :=
  if b.length ≠ 80 then .err .sliceLengthMismatch else
  needBytes "trg:udp" b 0 4 <|
  if word b 0 &&& 0x80000000 ≠ 0 then .err .zeroMismatch else
  needBytes "trg:header" b 4 4 <|
  if word b 1 &&& 0xF0000000 ≠ 0x80000000 then .err .headerMaskMismatch else
  needBytes "trg:timestamp" b 8 4 <|
  needBytes "trg:out" b 12 4 <|
  needBytes "trg:in" b 16 4 <|
  if word b 4 < word b 3 then .err .badTrigIn else
  needBytes "trg:pulser" b 20 4 <|
  needBytes "trg:trigger_bitmap" b 24 4 <|
  needBytes "trg:nim" b 28 4 <|
  needBytes "trg:esata" b 32 4 <|
  needBytes "trg:w9" b 36 4 <|
  if word b 9 &&& 0x7FFF0000 ≠ 0 then .err .zeroMismatch else
  -- `(dummy & 0xFFFF).try_into().unwrap()` into u16
  need "trg:aw16_prompt" (decide (word b 9 &&& 0xFFFF < 65536)) <|
  needBytes "trg:drift" b 40 4 <|
  if word b 10 > word b 4 ∨ word b 10 < word b 3 then .err .badDriftCounter else
  needBytes "trg:scaledown" b 44 4 <|
  if word b 11 > word b 10 ∨ word b 11 < word b 3 then .err .badScaledownCounter else
  needBytes "trg:w12" b 48 4 <|
  if word b 12 ≠ 0 then .err .zeroMismatch else
  needBytes "trg:w13" b 52 4 <|
  if word b 13 &&& 0xFF000000 ≠ 0 then .err .zeroMismatch else
  -- `(dummy >> 16).try_into().unwrap()` into u8, `(dummy & 0xFFFF)` into u16
  need "trg:aw16_mult" (decide (word b 13 >>> 16 < 256)) <|
  need "trg:aw16_bus" (decide (word b 13 &&& 0xFFFF < 65536)) <|
  needBytes "trg:bsc64_bus" b 56 8 <|
  needBytes "trg:w16" b 64 4 <|
  if word b 16 &&& 0xFFFFFF00 ≠ 0 then .err .zeroMismatch else
  need "trg:bsc64_mult" (decide (word b 16 &&& 0xFF < 256)) <|
  needBytes "trg:w17" b 68 4 <|
  if word b 17 &&& 0xFFFFFF00 ≠ 0 then .err .zeroMismatch else
  need "trg:coinc_latch" (decide (word b 17 &&& 0xFF < 256)) <|
  needBytes "trg:firmware" b 72 4 <|
  needBytes "trg:footer" b 76 4 <|
  if word b 19 &&& 0xF0000000 ≠ 0xE0000000 then .err .footerMaskMismatch else
  if word b 1 &&& 0xFFFFFFF ≠ word b 19 &&& 0xFFFFFFF
      ∨ word b 1 &&& 0xFFFFFFF ≠ word b 3 &&& 0xFFFFFFF then
    .err .trigOutMismatch
  else
  .ok { udpCounter := word b 0, timestamp := word b 2, outputCounter := word b 3,
        inputCounter := word b 4, pulserCounter := word b 5, triggerBitmap := word b 6,
        nimBitmap := word b 7, esataBitmap := word b 8,
        satisfiedMlu := decide (word b 9 &&& 0x80000000 ≠ 0),
        aw16Prompt := word b 9 &&& 0xFFFF,
        driftVetoCounter := word b 10, scaledownCounter := word b 11,
        aw16Multiplicity := word b 13 >>> 16, aw16Bus := word b 13 &&& 0xFFFF,
        bsc64Bus := leAt b 56 8, bsc64Multiplicity := word b 16 &&& 0xFF,
        coincidenceLatch := word b 17 &&& 0xFF, firmwareRevision := word b 18 }

/-- Re-encoding of the accessor values into the 80-byte wire format (documentation table). -/
def encode (p : Packet) : List UInt8 :=
  leBytes p.udpCounter 4
  ++ leBytes (0x80000000 + p.outputCounter % 0x10000000) 4
  ++ leBytes p.timestamp 4
  ++ leBytes p.outputCounter 4
  ++ leBytes p.inputCounter 4
  ++ leBytes p.pulserCounter 4
  ++ leBytes p.triggerBitmap 4
  ++ leBytes p.nimBitmap 4
  ++ leBytes p.esataBitmap 4
  ++ leBytes ((if p.satisfiedMlu then 0x80000000 else 0) + p.aw16Prompt) 4
  ++ leBytes p.driftVetoCounter 4
  ++ leBytes p.scaledownCounter 4
  ++ leBytes 0 4
  ++ leBytes (p.aw16Multiplicity * 65536 + p.aw16Bus) 4
  ++ leBytes p.bsc64Bus 8
  ++ leBytes p.bsc64Multiplicity 4
  ++ leBytes p.coincidenceLatch 4
  ++ leBytes p.firmwareRevision 4
  ++ leBytes (0xE0000000 + p.outputCounter % 0x10000000) 4

end AlphaG.Trg
