import AlphaG.Model.Basic
/-
CRC-32C (Castagnoli) as the bitwise reflected LFSR: polynomial 0x82F63B78 (bit-reversed
0x1EDC6F41), register initialised to all ones, final complement. This is the *definition* the
`crc32c` crate implements (its table/hardware variants are compared with this model by the
harness request `crc <hex>`). Core Lean only.

`step`/`run` work on single bits (the form the theorems of `Lemmas/Crc.lean` use);
`stepByte`/`runBytes` is the executable tail-recursive byte loop; `runBytes_eq_run` ties them.
-/
namespace AlphaG.Crc

/-- Reflected generator polynomial of CRC-32C (without the x^32 term). -/
def POLY : BitVec 32 := 0x82F63B78#32

/-- One LFSR step consuming the message bit `b` (bits of a byte are fed least significant
first): `s ← (s >>> 1) ^^^ (if lsb s ≠ b then POLY else 0)`. -/
def step (s : BitVec 32) (b : Bool) : BitVec 32 :=
  (s >>> 1) ^^^ (if (s.getLsbD 0 != b) then POLY else 0#32)

/-- Register after consuming a list of bits. -/
def run (s : BitVec 32) : List Bool → BitVec 32
  | [] => s
  | b :: bs => run (step s b) bs

/-- Bit `i` of a byte. -/
def bit (x : UInt8) (i : Nat) : Bool := x.toNat.testBit i

/-- The 8 bits of a byte in the order the register consumes them. -/
def byteBits (x : UInt8) : List Bool :=
  [bit x 0, bit x 1, bit x 2, bit x 3, bit x 4, bit x 5, bit x 6, bit x 7]

/-- Bit string of a byte string (byte 0 first, least significant bit of each byte first). -/
def bitsOf : List UInt8 → List Bool
  | [] => []
  | x :: m => byteBits x ++ bitsOf m

/-- Eight bit steps. -/
def stepByte (s : BitVec 32) (x : UInt8) : BitVec 32 :=
  step (step (step (step (step (step (step (step s (bit x 0)) (bit x 1)) (bit x 2)) (bit x 3))
    (bit x 4)) (bit x 5)) (bit x 6)) (bit x 7)

/-- Executable byte loop (tail recursive). -/
def runBytes (s : BitVec 32) : List UInt8 → BitVec 32
  | [] => s
  | x :: m => runBytes (stepByte s x) m

theorem runBytes_eq_run (m : List UInt8) (s : BitVec 32) : runBytes s m = run s (bitsOf m) := by
  induction m generalizing s with
  | nil => rfl
  | cons x m ih => simp only [runBytes, bitsOf, byteBits, List.cons_append, List.nil_append, run, ih,
      stepByte]

/-- The all-ones initial register. -/
def ONES : BitVec 32 := 0xFFFFFFFF#32

/-- Raw register after a message, from the all-ones start. The chunk format stores
`!crc32c(m)`, i.e. exactly this value (the final complement undone). -/
def reg (m : List UInt8) : BitVec 32 := runBytes ONES m

/-- `crc32c::crc32c(m)` as a 32-bit vector. -/
def crc32cBV (m : List UInt8) : BitVec 32 := ~~~ reg m

/-- `crc32c::crc32c(m)` as a natural number. -/
def crc32c (m : List UInt8) : Nat := (crc32cBV m).toNat

/-- `!crc32c::crc32c(m)` (what the PWB chunk stores), as a natural number. -/
def crcInv (m : List UInt8) : Nat := (~~~ crc32cBV m).toNat

end AlphaG.Crc
