import AlphaG.Model.Basic
/-
Model of the ring logic of `physics/src/deconvolution/wires.rs`: `contiguous_ranges`,
`range_to_indices`, `range_to_len`, for a ring of any size `n` (the code's `TPC_ANODE_WIRES =
256` is an instance). Occupancy is the list `wire_signals.map(Option::is_some)`.
-/
namespace AlphaG.Ranges

/-- The two-pointer scan of `contiguous_ranges` as a structural recursion over the occupancy
list carrying the current index and the start of the open run: the maximal linear runs
`[start, end)` of occupied wires, in increasing order. -/
def scan : List Bool → Nat → Option Nat → List (Nat × Nat)
  | [], i, some s => [(s, i)]
  | [], _, none => []
  | true :: rest, i, none => scan rest (i + 1) (some i)
  | true :: rest, i, some s => scan rest (i + 1) (some s)
  | false :: rest, i, some s => (s, i) :: scan rest (i + 1) none
  | false :: rest, i, none => scan rest (i + 1) none

/-- `Vec::swap_remove(0)` on a non-empty vector: the first element is replaced by the last. -/
def swapRemove0 {β : Type} : List β → List β
  | [] => []
  | [_] => []
  | _ :: x :: xs => (x :: xs).getLast (List.cons_ne_nil x xs) :: (x :: xs).dropLast

/-- The first/last merge exactly as coded: `ranges.len() > 1`, first range starts at `0`, last
range ends at `n`: `pop()` the last `(start_f, _)`, `swap_remove(0)` the first `(_, end_i)`,
`push((start_f, end_i))`. -/
def mergeRing (n : Nat) : List (Nat × Nat) → List (Nat × Nat)
  | [] => []
  | [r] => [r]
  | r0 :: r1 :: rest =>
    if r0.1 = 0 ∧ ((r1 :: rest).getLast (List.cons_ne_nil r1 rest)).2 = n then
      swapRemove0 (r0 :: (r1 :: rest).dropLast)
        ++ [(((r1 :: rest).getLast (List.cons_ne_nil r1 rest)).1, r0.2)]
    else r0 :: r1 :: rest

/-- `contiguous_ranges` for a ring of `occ.length` wires. -/
def contiguousRanges (occ : List Bool) : List (Nat × Nat) :=
  mergeRing occ.length (scan occ 0 none)

/-- `range_to_indices` on a ring of `n` wires. -/
def rangeToIndices (n : Nat) (r : Nat × Nat) : List Nat :=
  if r.1 < r.2 then List.range' r.1 (r.2 - r.1)
  else List.range' r.1 (n - r.1) ++ List.range' 0 r.2

/-- `range_to_len` on a ring of `n` wires. -/
def rangeToLen (n : Nat) (r : Nat × Nat) : Nat :=
  if r.1 < r.2 then r.2 - r.1 else n - r.1 + r.2

/-- The blocks of wire indices, each in ring order, in the order of `contiguous_ranges`. -/
def blocks (occ : List Bool) : List (List Nat) :=
  (contiguousRanges occ).map (rangeToIndices occ.length)

/-- Occupancy rotated by `k` wires: wire `w` of the rotated ring is wire `w - k` of the
original one. -/
def rotOcc (k : Nat) (occ : List Bool) : List Bool :=
  (List.range occ.length).map fun w => occ.getD ((w + occ.length - k % occ.length) % occ.length) false

end AlphaG.Ranges
