import AlphaG.Model.Basic
/-
Model of the drift-time lookup (physics/src/drift.rs `DriftTable::at`, `DriftTables::at`;
physics/src/lib.rs `impl TryFrom<Avalanche> for SpacePoint`), written once over a generic
carrier `α` with exactly the operations the Rust code applies to `f64` (through `uom`
quantities in SI base units, whose arithmetic is the arithmetic of the stored value), in the
same order. `Float` instantiates it in the driver (bit-exact with Rust: `+ - * /`, `abs`,
comparisons); a linear ordered field instantiates it in `Props/C18.lean`.

(`at` is a Lean keyword: `DriftTable::at` is `tableAt`, `DriftTables::at` is `tablesAt`.)
-/
namespace AlphaG.Drift

/-- The `f64` operations used by the lookup. No laws. -/
structure Ops (α : Type) where
  add : α → α → α
  sub : α → α → α
  mul : α → α → α
  div : α → α → α
  abs : α → α
  /-- `a < b` -/
  lt : α → α → Bool
  /-- `a <= b` -/
  le : α → α → Bool

/-- Rust `a > b` on `f64`/`Quantity` (`PartialOrd`): `partial_cmp == Some(Greater)`, i.e. `b < a`
(false when either is NaN). -/
@[inline] def Ops.gt {α : Type} (O : Ops α) (a b : α) : Bool := O.lt b a
/-- Rust `a >= b`: `b <= a`. -/
@[inline] def Ops.ge {α : Type} (O : Ops α) (a b : α) : Bool := O.le b a

/-- One row `(Time, Length, Angle)` of a `DriftTable`. -/
structure Knot (α : Type) where
  t : α
  r : α
  c : α
deriving Repr

/-- One entry `(DriftTable, Length)` of `DriftTables`: a table with the upper bound of its z region. -/
structure Slice (α : Type) where
  table : List (Knot α)
  zUpper : α

inductive Err where
  | driftTimeOutOfRange
  | axialPositionOutOfRange
deriving Repr, DecidableEq

/-- `self.0.iter().position(|&(time, _, _)| time > t).unwrap_or(self.0.len() - 1)` -/
def rhsIndex {α : Type} (O : Ops α) (tb : List (Knot α)) (t : α) : Nat :=
  (tb.findIdx? (fun k => O.gt k.t t)).getD (tb.length - 1)

/-- `fraction = (t - lhs_time) / (rhs_time - lhs_time)` -/
def fraction {α : Type} (O : Ops α) (l r : Knot α) (t : α) : α :=
  O.div (O.sub t l.t) (O.sub r.t l.t)

/-- `(lhs_radius + fraction * (rhs_radius - lhs_radius),
     lhs_correction + fraction * (rhs_correction - lhs_correction))` -/
def interp {α : Type} (O : Ops α) (l r : Knot α) (t : α) : α × α :=
  (O.add l.r (O.mul (fraction O l r t) (O.sub r.r l.r)),
   O.add l.c (O.mul (fraction O l r t) (O.sub r.c l.c)))

/-- `DriftTable::at`. Panic sites: `self.0[0]` / `self.0[len - 1]` on an empty table
(`drift:index`), `rhs_index - 1` (overflow check in a dev build, wrap-around followed by the
index check in a release build: both `drift:lhs_index`), `self.0[lhs_index]`, `self.0[rhs_index]`. -/
def tableAt {α : Type} (O : Ops α) (tb : List (Knot α)) (t : α) : Outcome Err (α × α) :=
  match tb[0]? with
  | none => .panic "drift:index"
  | some first =>
  match tb[tb.length - 1]? with
  | none => .panic "drift:index"
  | some last =>
  if O.lt t first.t || O.gt t last.t then .err .driftTimeOutOfRange else
  if rhsIndex O tb t < 1 then .panic "drift:lhs_index" else
  match tb[rhsIndex O tb t - 1]? with
  | none => .panic "drift:lhs_index"
  | some l =>
  match tb[rhsIndex O tb t]? with
  | none => .panic "drift:index"
  | some r => .ok (interp O l r t)

/-- `DriftTables::at`. Panic sites: `self.0[self.0.len() - 1]` on an empty list, `find(..).unwrap()`. -/
def tablesAt {α : Type} (O : Ops α) (ts : List (Slice α)) (z t : α) : Outcome Err (α × α) :=
  match ts[ts.length - 1]? with
  | none => .panic "drift:index"
  | some last =>
  if O.gt (O.abs z) last.zUpper then .err .axialPositionOutOfRange else
  match ts.find? (fun s => O.ge s.zUpper (O.abs z)) with
  | none => .panic "drift:find"
  | some s => tableAt O s.table t

/-- The fields of `Avalanche` the conversion reads (`wire_amplitude`, `pad_amplitude` are ignored). -/
structure Avalanche (α : Type) where
  t : α
  phi : α
  z : α

structure SpacePoint (α : Type) where
  r : α
  phi : α
  z : α

/-- `impl TryFrom<Avalanche> for SpacePoint` with the tables as a parameter. -/
def spacePoint {α : Type} (O : Ops α) (ts : List (Slice α)) (av : Avalanche α) :
    Outcome Err (SpacePoint α) :=
  match tablesAt O ts av.z av.t with
  | .ok rc => .ok { r := rc.1, phi := O.sub av.phi rc.2, z := av.z }
  | .err e => .err e
  | .panic s => .panic s

/-! ### Generated tables: bit patterns -/

/-- Tables over a carrier from the generated bit patterns, given the reading of one `f64`
bit pattern (`Float.ofBits` in the driver, the exact dyadic value in the theorems). -/
def tablesOfBits {α : Type} (ofBits : Nat → α) (bits : List (List (Nat × Nat × Nat) × Nat)) :
    List (Slice α) :=
  bits.map fun s =>
    { table := s.1.map fun k => { t := ofBits k.1, r := ofBits k.2.1, c := ofBits k.2.2 },
      zUpper := ofBits s.2 }

/-- IEEE `f64` instance (driver only). -/
def floatOps : Ops Float where
  add := fun a b => a + b
  sub := fun a b => a - b
  mul := fun a b => a * b
  div := fun a b => a / b
  abs := Float.abs
  lt := fun a b => decide (a < b)
  le := fun a b => decide (a ≤ b)

end AlphaG.Drift
