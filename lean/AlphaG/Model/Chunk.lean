import AlphaG.Model.Basic
import AlphaG.Model.Crc
import AlphaG.Generated.Boards
/-
Model of `Chunk::try_from(&[u8])`, the `Chunk` accessors and the `padwing::BoardId` /
`AfterId` conversions (detector/src/padwing.rs), transcribed check by check in the order of the
Rust code. The board table is the generated `AlphaG.Generated.padwingBoards`.
The specification `ChunkWellFormed` lives in Props/C03.lean.
-/
namespace AlphaG.Chunk
open AlphaG.Crc

/-! ### `padwing::BoardId` and `AfterId` conversions -/

/-- `BoardId { name, mac_address, device_id }`. -/
abbrev Board := String × List Nat × Nat

/-- `BoardId::try_from(u32)`: first table entry with this device id. -/
def boardOfDeviceId (id : Nat) : Option Board :=
  AlphaG.Generated.padwingBoards.find? (fun t => t.2.2 == id)

/-- `BoardId::try_from([u8; 6])`: first table entry with this MAC address. -/
def boardOfMac (mac : List Nat) : Option Board :=
  AlphaG.Generated.padwingBoards.find? (fun t => t.2.1 == mac)

/-- `BoardId::try_from(&str)`: first table entry with this name. -/
def boardOfName (name : String) : Option Board :=
  AlphaG.Generated.padwingBoards.find? (fun t => t.1 == name)

inductive AfterId where
  | A | B | C | D
deriving Repr, DecidableEq

/-- `AfterId::try_from(u8)`. -/
def afterOfNat (n : Nat) : Option AfterId :=
  if n = 0 then some .A else if n = 1 then some .B else if n = 2 then some .C
  else if n = 3 then some .D else none

/-- `AfterId::try_from(char)`. -/
def afterOfChar (c : Char) : Option AfterId :=
  if c = 'A' then some .A else if c = 'B' then some .B else if c = 'C' then some .C
  else if c = 'D' then some .D else none

/-! ### `Chunk` -/

/-- The private fields of `Chunk`. -/
structure Chunk where
  deviceId : Nat
  packetSequence : Nat
  channelSequence : Nat
  channelId : Nat
  flags : Nat
  chunkId : Nat
  payload : List UInt8
deriving Repr, DecidableEq

inductive Err where
  | incompleteSlice | unknownDeviceId | unknownChannelId | unknownFlags | badChunkLength
  | zeroMismatch | headerCRC32CMismatch | payloadCRC32CMismatch
deriving Repr, DecidableEq

/-- `slice[20 + chunk_length..slice.len() - 4]`. -/
def padding (b : List UInt8) : List UInt8 :=
  (b.drop (20 + leAt b 14 2)).take (b.length - 4 - (20 + leAt b 14 2))

/-- `slice[20..slice.len() - 4]`: payload and padding, the range of the payload CRC. -/
def padded (b : List UInt8) : List UInt8 := (b.drop 20).take (b.length - 4 - 20)

def decodeChunk (b : List UInt8) : Outcome Err Chunk :=
  if b.length < 28 then .err .incompleteSlice else
  if b.length % 4 ≠ 0 then .err .incompleteSlice else
  needBytes "chunk:device_id" b 0 4 <|
  if (boardOfDeviceId (leAt b 0 4)).isNone then .err .unknownDeviceId else
  needBytes "chunk:packet_sequence" b 4 4 <|
  needBytes "chunk:channel_sequence" b 8 2 <|
  needBytes "chunk:channel_id" b 10 1 <|
  if (afterOfNat (byteAt b 10)).isNone then .err .unknownChannelId else
  needBytes "chunk:flags" b 11 1 <|
  if byteAt b 11 ≠ 0 ∧ byteAt b 11 ≠ 1 then .err .unknownFlags else
  needBytes "chunk:chunk_id" b 12 2 <|
  needBytes "chunk:chunk_length" b 14 2 <|
  -- `let max = slice.len() - 24; let min = max - 3;` (usize subtraction)
  need "chunk:max" (decide (24 ≤ b.length)) <|
  need "chunk:min" (decide (3 ≤ b.length - 24)) <|
  if leAt b 14 2 < b.length - 24 - 3 ∨ leAt b 14 2 > b.length - 24 then .err .badChunkLength else
  needBytes "chunk:header_crc" b 16 4 <|
  needBytes "chunk:header" b 0 16 <|
  if leAt b 16 4 ≠ crcInv (b.take 16) then .err .headerCRC32CMismatch else
  -- `slice[20..][..chunk_length]`
  need "chunk:payload_from" (decide (20 ≤ b.length)) <|
  need "chunk:payload" (decide (leAt b 14 2 ≤ b.length - 20)) <|
  -- `slice[20 + chunk_length..slice.len() - 4]`
  need "chunk:len-4" (decide (4 ≤ b.length)) <|
  need "chunk:padding" (decide (20 + leAt b 14 2 ≤ b.length - 4 ∧ b.length - 4 ≤ b.length)) <|
  if (padding b).any (fun x => x != 0) then .err .zeroMismatch else
  needBytes "chunk:payload_crc" b (b.length - 4) 4 <|
  need "chunk:padded" (decide (20 ≤ b.length - 4 ∧ b.length - 4 ≤ b.length)) <|
  if leAt b (b.length - 4) 4 ≠ crcInv (padded b) then .err .payloadCRC32CMismatch else
  .ok { deviceId := leAt b 0 4, packetSequence := leAt b 4 4, channelSequence := leAt b 8 2,
        channelId := byteAt b 10, flags := byteAt b 11, chunkId := leAt b 12 2,
        payload := (b.drop 20).take (leAt b 14 2) }

/-! ### Accessors -/

/-- The 16 header bytes rebuilt from the fields (`to_le_bytes` chain of `header_crc32c`). -/
def headerBytes (c : Chunk) : List UInt8 :=
  leBytes c.deviceId 4 ++ leBytes c.packetSequence 4 ++ leBytes c.channelSequence 2
    ++ leBytes c.channelId 1 ++ leBytes c.flags 1 ++ leBytes c.chunkId 2
    ++ leBytes c.payload.length 2

/-- `match len % 4 { 0 => 0, r => 4 - r }`. -/
def padLen (n : Nat) : Nat := if n % 4 = 0 then 0 else 4 - n % 4

/-- Payload followed by its zero padding to a multiple of 4. -/
def paddedPayload (c : Chunk) : List UInt8 :=
  c.payload ++ List.replicate (padLen c.payload.length) 0

def headerCrcVal (c : Chunk) : Nat := crcInv (headerBytes c)
def payloadCrcVal (c : Chunk) : Nat := crcInv (paddedPayload c)

/-- `Chunk::board_id`: `BoardId::try_from(self.device_id).unwrap()`. -/
def boardId (c : Chunk) : Outcome Unit Board :=
  match boardOfDeviceId c.deviceId with
  | some t => .ok t
  | none => .panic "chunk:board_id"

/-- `Chunk::after_id`: `AfterId::try_from(self.channel_id).unwrap()`. -/
def afterId (c : Chunk) : Outcome Unit AfterId :=
  match afterOfNat c.channelId with
  | some a => .ok a
  | none => .panic "chunk:after_id"

/-- `Chunk::is_end_of_message`: `flags & 1 == 1`. -/
def isEndOfMessage (c : Chunk) : Bool := c.flags &&& 1 == 1

/-- `Chunk::header_crc32c`; `u16::try_from(self.payload.len()).unwrap()` is the panic site. -/
def headerCrc32c (c : Chunk) : Outcome Unit Nat :=
  need "chunk:header_crc32c" (decide (c.payload.length < 65536)) <| .ok (headerCrcVal c)

/-- `Chunk::payload_crc32c` (no panic site). -/
def payloadCrc32c (c : Chunk) : Outcome Unit Nat := .ok (payloadCrcVal c)

/-- Re-encoding from the documented layout: 16-byte little-endian header, `!crc32c(header)`,
payload padded with zeros to a multiple of 4, `!crc32c(padded payload)`. -/
def encodeChunk (c : Chunk) : List UInt8 :=
  headerBytes c ++ leBytes (headerCrcVal c) 4 ++ paddedPayload c ++ leBytes (payloadCrcVal c) 4

end AlphaG.Chunk
