import AlphaG.Model.Basic
import AlphaG.Model.BankName
import AlphaG.Model.Maps
import AlphaG.Model.Adc
import AlphaG.Model.Trg
import AlphaG.Model.EventChunks
import AlphaG.Generated.Calibration
/-
Model of `MainEvent::try_from_banks` and `MainEvent::timestamp` (physics/src/lib.rs) and of the six
calibration lookups `try_{wire,pad}_{baseline,gain,delay}` (physics/src/calibration/**),
statement by statement in the order of the Rust code (tree with the pad path widened to `i32`
and with the repairs of findings F6, commit 851d684, and F10, commit 509cd0e).

Reused models (nothing is re-modelled here): `BankName.parseBankName` (C08), `Adc.decodeAdcPacket`
(C02), `Chunk.decodeChunk` + `toChunkV` (C03/C01), `Pwb.reassemble`, `Pwb.waveformAt` (C04/C05),
`Trg.decode` (C06), `Maps.wirePosition`, `Maps.padPosition`, `Maps.dispatch` (C08).

Modelling decisions
* Boards are rows of `ALPHA16BOARDS` / `PADWING_BOARDS` (as in `Model/Maps.lean`); a Rust `BoardId`
  is compared by value (`alpha16Boards[row]? = packet.boardId`), and handed to the maps as the
  row its name resolves to.
* `pwb_chunks_map : HashMap<(BoardId, AfterId), Vec<Chunk>>` is an association list in order of
  first insertion (`pushChunk`); each `Vec` is in push order. Iterating the map yields the entries in
  an unspecified order: `GroupOrder` is an *arbitrary permutation* of that list, a parameter of
  the model (`buildEventWith`); the executable instance `GroupOrder.id` keeps insertion order.
* The signal arrays are `Array (Option (List α))` of sizes 256 and 32·576 (pad `(column, row)` at
  `column * 576 + row`); every index is a guard (`event:wire_signals[index]`, …).
* Samples are computed over a carrier `α` (`Ops α`): the only float operations of the function
  are `f64::from(i32)` and one multiplication, `ofInt (v - baseline) * gain`; gains come from the
  tables as f64 bit patterns (`ofBits`). The driver instantiates `α := Float`.
* `i32::from(v) - i32::from(baseline)` is a guard (`event:i32 sub`); `buildEvent_total` shows it
  cannot fail.
* The lazy-static initialisers of the calibration maps `unwrap()` the `serde_json` / `ron` parse
  of the embedded data files. They run once per process and do not depend on the event; the
  translator (translator/calib.py) obtains the tables *through* these initialisers of the built
  code and cross-checks them against the files, so a failing initialiser breaks the translation
  step, not a theorem. `baseline.round() as i16` is applied by the translator's cross-check
  (round half away from zero); the model applies the saturating `as i16` cast (`clampI16`) to the
  table entry, which is the identity on the generated values.
* Branches marked `model:` are artefacts of the table encoding (an arm referring to a table that
  does not exist, a literal in a map dispatch, no arm matching); `Lemmas/Event.lean` proves them
  dead from kernel-checked facts about the generated arms.
Core Lean only.
-/
namespace AlphaG.Event
open AlphaG AlphaG.Generated

/-! ### Carrier -/

/-- Float operations used by `try_from_banks`. No laws. -/
structure Ops (α : Type) where
  /-- `f64::from(i32)` -/
  ofInt : Int → α
  /-- `f64 * f64` -/
  mul : α → α → α
  /-- `f64::from_bits` (gain table entries) -/
  ofBits : Nat → α

/-! ### Calibration lookups -/

/-- `x as i16` for an already rounded value: saturating. -/
def clampI16 (v : Int) : Int := if v < -32768 then -32768 else if v > 32767 then 32767 else v

/-- `match run_number {…}; map.get(&wire).copied().ok_or(MissingWire)` for a wire map family. -/
def wireLookup {β : Type} (arms : Arms) (tables : List (List β × List Nat)) (run w : Nat) :
    Outcome String β :=
  match Maps.dispatch arms run with
  | some (.err v) => .err v
  | some (.table i) =>
    match tables[i]? with
    | none => .panic "model:missing-table"
    | some t =>
      if t.2.contains w then .err "MissingWire" else
      match t.1[w]? with
      | some v => .ok v
      | none => .err "MissingWire"
  | some (.value _) => .panic "model:literal-in-map-dispatch"
  | none => .panic "model:no-arm"

/-- Same for a pad map family (`MissingPad`). -/
def padLookup {β : Type} (arms : Arms) (tables : List (List (List β) × List (Nat × Nat)))
    (run col row : Nat) : Outcome String β :=
  match Maps.dispatch arms run with
  | some (.err v) => .err v
  | some (.table i) =>
    match tables[i]? with
    | none => .panic "model:missing-table"
    | some t =>
      if t.2.contains (col, row) then .err "MissingPad" else
      match t.1[col]? with
      | none => .err "MissingPad"
      | some c =>
        match c[row]? with
        | some v => .ok v
        | none => .err "MissingPad"
  | some (.value _) => .panic "model:literal-in-map-dispatch"
  | none => .panic "model:no-arm"

/-- `match run_number { … => Ok(n), _ => Err(MissingMap) }`. -/
def delayLookup (arms : Arms) (run : Nat) : Outcome String Nat :=
  match Maps.dispatch arms run with
  | some (.err v) => .err v
  | some (.value n) => .ok n
  | some (.table _) => .panic "model:table-in-delay-dispatch"
  | none => .panic "model:no-arm"

/-- `try_wire_baseline(run_number, wire)` -/
def wireBaseline (run w : Nat) : Outcome String Int :=
  BankName.mapOut id clampI16 (wireLookup wireBaselineArms wireBaselineTables run w)

/-- `try_wire_gain(run_number, wire)` as an f64 bit pattern -/
def wireGainBits (run w : Nat) : Outcome String Nat := wireLookup wireGainArms wireGainTables run w

/-- `try_wire_delay(run_number)` -/
def wireDelay (run : Nat) : Outcome String Nat := delayLookup wireDelayArms run

/-- `try_pad_baseline(run_number, pad)` -/
def padBaseline (run col row : Nat) : Outcome String Int :=
  BankName.mapOut id clampI16 (padLookup padBaselineArms padBaselineTables run col row)

/-- `try_pad_gain(run_number, pad)` as an f64 bit pattern -/
def padGainBits (run col row : Nat) : Outcome String Nat :=
  padLookup padGainArms padGainTables run col row

/-- `try_pad_delay(run_number)` -/
def padDelay (run : Nat) : Outcome String Nat := delayLookup padDelayArms run

/-! ### Errors, state, event -/

/-- `TryMainEventFromDataBanksError` (payloads of the sub-errors kept, ids dropped). -/
inductive Err where
  | unknownBank (e : BankName.MainErr)
  | badAlpha16 (e : Adc.Err)
  | alpha16IdMismatch
  | wireBankWithBvChannel
  | duplicateWireBank
  | badPadwingChunk (e : Chunk.Err)
  | padwingBoardIdMismatch
  | badPadwing (e : Pwb.CErr)
  | duplicatePadSignal
  | badTrg (e : Trg.Err)
  | duplicateTrgBank
  | missingTrgBank
  | wirePositionError (v : String)
  | padPositionError (v : String)
  | wireBaselineError (v : String)
  | wireDelayError (v : String)
  | wireGainError (v : String)
  | padBaselineError (v : String)
  | padDelayError (v : String)
  | padGainError (v : String)
deriving Repr, DecidableEq

/-- `MainEvent`. `wire` has 256 slots, `pad` 32·576 (pad `(column, row)` at `column * 576 + row`). -/
structure Event (α : Type) where
  wire : Array (Option (List α))
  pad : Array (Option (List α))
  ts : Nat

/-- A bank: `(name, data)`. -/
abbrev Bank := String × List UInt8

/-- Key of `pwb_chunks_map`: `(chunk.board_id(), chunk.after_id())` — the `PADWING_BOARDS` triplet
the device id resolves to, and the chip 0..3. -/
abbrev Key := Option Chunk.Board × Option Chunk.AfterId

abbrev Group := Key × List Pwb.ChunkV

/-- The local variables of `try_from_banks`. -/
structure St (α : Type) where
  wire : Array (Option (List α))
  pad : Array (Option (List α))
  ts : Option Nat
  groups : List Group
  /-- `wire_bank_names`: the `Adc32BankName`s seen so far as (board row, channel) -/
  wireNames : List (Nat × Nat)

def nWires : Nat := 256
def nPadColumns : Nat := 32
def nPadRows : Nat := 576

/-- `[(); N].map(|_| None)`, `None`, `HashMap::new()`. -/
def St.init {α : Type} : St α :=
  { wire := Array.replicate nWires none, pad := Array.replicate (nPadColumns * nPadRows) none,
    ts := none, groups := [], wireNames := [] }

/-- Order in which `HashMap::into_values()` yields the groups: any permutation. -/
structure GroupOrder where
  f : List Group → List Group
  perm : ∀ l, (f l).Perm l

/-- Insertion order (executable instance). -/
def GroupOrder.id : GroupOrder := ⟨fun l => l, fun l => List.Perm.refl l⟩

/-- `pwb_chunks_map.entry(key).or_default().push(chunk)`. -/
def pushChunk (k : Key) (c : Pwb.ChunkV) : List Group → List Group
  | [] => [(k, [c])]
  | g :: rest => if g.1 = k then (g.1, g.2 ++ [c]) :: rest else g :: pushChunk k c rest

/-! ### Signals -/

variable {α : Type}

/-- Every `i32::from(v) - i32::from(baseline)` of the `map` fits in an `i32`. -/
def subFitsI32 (bl : Int) (wf : List Int) : Bool :=
  wf.all (fun v => decide (-2147483648 ≤ v - bl ∧ v - bl ≤ 2147483647))

/-- `waveform.iter().skip(delay).map(|&v| f64::from(i32::from(v) - i32::from(baseline)) * gain)` -/
def calibrate (ops : Ops α) (bl : Int) (gain : α) (delay : Nat) (wf : List Int) : List α :=
  (wf.drop delay).map (fun v => ops.mul (ops.ofInt (v - bl)) gain)

/-- Row of `ALPHA16BOARDS` of a packet's `board_id()` (`BoardId` → the row its name resolves to). -/
def a16Row (b : Option (String × List Nat)) : Nat :=
  ((b.bind (fun x => Maps.a16BoardIdx x.1))).getD 0

/-- Row of `PADWING_BOARDS` of a PWB packet's `board_id()`. -/
def pwbRow (p : Pwb.PwbPacket) : Nat := (Maps.pwbBoardIdx p.boardName).getD 0

/-- `usize::from(wire_position)` is an index into `[_; 256]`; slot test `is_some()`. -/
def slotTaken (a : Array (Option (List α))) (i : Nat) : Bool := (a[i]?).join.isSome

/-! ### The `Alpha16(A32(bank_name))` arm -/

/-- From `TpcWirePosition::try_new` on: position, occupancy, calibration, signal, store. -/
def wireStore (ops : Ops α) (run : Nat) (board ch : Nat) (wf : List Int) (st : St α) :
    Outcome Err (St α) :=
  match Maps.wirePosition run board ch with
  | .panic s => .panic s
  | .err v => .err (.wirePositionError v)
  | .ok w =>
    need "event:wire_signals[index]" (decide (w < nWires)) <|
    if slotTaken st.wire w then .err .duplicateWireBank else
    match wireBaseline run w with
    | .panic s => .panic s
    | .err v => .err (.wireBaselineError v)
    | .ok bl =>
      match wireGainBits run w with
      | .panic s => .panic s
      | .err v => .err (.wireGainError v)
      | .ok g =>
        match wireDelay run with
        | .panic s => .panic s
        | .err v => .err (.wireDelayError v)
        | .ok d =>
          need "event:i32 sub" (subFitsI32 bl (wf.drop d)) <|
          .ok (if (calibrate ops bl (ops.ofBits g) d wf).isEmpty then st
               else { st with wire := st.wire.setIfInBounds w (some (calibrate ops bl (ops.ofBits g) d wf)) })

/-- `packet.board_id().unwrap_or(bank_name.board_id())`: a suppressed packet carries no board id. -/
def boardOf (nm : BankName.Name) (p : Adc.Packet) : Option (String × List Nat) :=
  match p.boardId with
  | some x => some x
  | none => alpha16Boards[nm.board]?

/-- Body of the arm after `AdcPacket::try_from(data_slice)?` succeeded with `p` (tree with the
repair of finding F6: the name, BV and id checks come before the `is_empty` test). -/
def wirePacket (ops : Ops α) (run : Nat) (nm : BankName.Name) (p : Adc.Packet) (st : St α) :
    Outcome Err (St α) :=
  -- `wire_bank_names.contains(&bank_name)`, then `push`
  if st.wireNames.contains (nm.board, nm.channel) then .err .duplicateWireBank else
  match p.channelId with
  | .a16 _ => .err .wireBankWithBvChannel
  | .a32 ch =>
    if (alpha16Boards[nm.board]?, nm.channel) ≠ (boardOf nm p, ch) then .err .alpha16IdMismatch else
    if p.waveform.isEmpty then .ok { st with wireNames := st.wireNames ++ [(nm.board, nm.channel)] } else
    wireStore ops run (a16Row (boardOf nm p)) ch p.waveform
      { st with wireNames := st.wireNames ++ [(nm.board, nm.channel)] }

def wireBank (ops : Ops α) (run : Nat) (nm : BankName.Name) (data : List UInt8) (st : St α) :
    Outcome Err (St α) :=
  match Adc.decodeAdcPacket data with
  | .panic s => .panic s
  | .err e => .err (.badAlpha16 e)
  | .ok p => wirePacket ops run nm p st

/-! ### The `Padwing(bank_name)` arm -/

/-- `(chunk.board_id(), chunk.after_id())`; both accessors `unwrap()` (guards in `padwingBank`). -/
def chunkKey (c : Chunk.Chunk) : Key := (Chunk.boardOfDeviceId c.deviceId, Chunk.afterOfNat c.channelId)

def padwingBank (nm : BankName.Name) (data : List UInt8) (st : St α) : Outcome Err (St α) :=
  match Chunk.decodeChunk data with
  | .panic s => .panic s
  | .err e => .err (.badPadwingChunk e)
  | .ok c =>
    need "chunk:board_id" (Chunk.boardOfDeviceId c.deviceId).isSome <|
    need "chunk:after_id" (Chunk.afterOfNat c.channelId).isSome <|
    if Chunk.boardOfDeviceId c.deviceId ≠ padwingBoards[nm.board]? then .err .padwingBoardIdMismatch
    else .ok { st with groups := pushChunk (chunkKey c) (toChunkV c) st.groups }

/-! ### The `Trg(_)` arm -/

def trgBank (data : List UInt8) (st : St α) : Outcome Err (St α) :=
  match Trg.decode data with
  | .panic s => .panic s
  | .err e => .err (.badTrg e)
  | .ok p => if st.ts.isSome then .err .duplicateTrgBank else .ok { st with ts := some p.timestamp }

/-! ### First loop -/

/-- One iteration of `for (bank_name, data_slice) in banks`. -/
def bankStep (ops : Ops α) (run : Nat) (bank : Bank) (st : St α) : Outcome Err (St α) :=
  match BankName.parseBankName bank.1 with
  | .panic s => .panic s
  | .err e => .err (.unknownBank e)
  | .ok nm =>
    match nm.kind with
    | .adc32 => wireBank ops run nm bank.2 st
    | .padwing => padwingBank nm bank.2 st
    | .trg => trgBank bank.2 st
    | _ => .ok st

def bankLoop (ops : Ops α) (run : Nat) : List Bank → St α → Outcome Err (St α)
  | [], st => .ok st
  | b :: bs, st =>
    match bankStep ops run b st with
    | .ok st' => bankLoop ops run bs st'
    | .err e => .err e
    | .panic s => .panic s

/-! ### Second loop -/

/-- From `TpcPadPosition::try_new` on, for one sent pad channel with waveform `wf`. -/
def padStore (ops : Ops α) (run : Nat) (board chip ch : Nat) (wf : List Int)
    (pad : Array (Option (List α))) : Outcome Err (Array (Option (List α))) :=
  match Maps.padPosition run board chip ch with
  | .panic s => .panic s
  | .err v => .err (.padPositionError v)
  | .ok pos =>
    need "event:pad_signals[column]" (decide (pos.1 < nPadColumns)) <|
    need "event:pad_signals[column][row]" (decide (pos.2 < nPadRows)) <|
    if slotTaken pad (pos.1 * nPadRows + pos.2) then .err .duplicatePadSignal else
    match padBaseline run pos.1 pos.2 with
    | .panic s => .panic s
    | .err v => .err (.padBaselineError v)
    | .ok bl =>
      match padGainBits run pos.1 pos.2 with
      | .panic s => .panic s
      | .err v => .err (.padGainError v)
      | .ok g =>
        match padDelay run with
        | .panic s => .panic s
        | .err v => .err (.padDelayError v)
        | .ok d =>
          need "event:i32 sub" (subFitsI32 bl (wf.drop d)) <|
          .ok (if (calibrate ops bl (ops.ofBits g) d wf).isEmpty then pad
               else pad.setIfInBounds (pos.1 * nPadRows + pos.2)
                 (some (calibrate ops bl (ops.ofBits g) d wf)))

/-- `for &channel_id in packet.channels_sent()`; `board`, `chip` are the group key's. -/
def channelLoop (ops : Ops α) (run board chip : Nat) (p : Pwb.PwbPacket) :
    List Pwb.ChannelId → Array (Option (List α)) → Outcome Err (Array (Option (List α)))
  | [], pad => .ok pad
  | .pad n :: cs, pad =>
    match Pwb.waveformAt p (.pad n) with
    | .panic s => .panic s
    | .err _ => .panic "model:waveform_at-err"
    | .ok none => .panic "event:waveform_at().unwrap()"
    | .ok (some wf) =>
      match padStore ops run board chip n wf pad with
      | .ok pad' => channelLoop ops run board chip p cs pad'
      | .err e => .err e
      | .panic s => .panic s
  | _ :: cs, pad => channelLoop ops run board chip p cs pad

/-- `AfterId` as the chip number 0..3. -/
def afterNum : Chunk.AfterId → Nat
  | .A => 0
  | .B => 1
  | .C => 2
  | .D => 3

/-- Row of `PADWING_BOARDS` of the key's `BoardId`. -/
def keyRow (k : Key) : Nat := (k.1.bind (fun b => Maps.pwbBoardIdx b.1)).getD 0

/-- Chip number of the key's `AfterId`. -/
def keyChip (k : Key) : Nat :=
  match k.2 with
  | some a => afterNum a
  | none => 0

/-- `packet.board_id()` as the `PADWING_BOARDS` triplet. -/
def packetBoard (p : Pwb.PwbPacket) : Chunk.Board := (p.boardName, p.mac, p.deviceId)

/-- One iteration of `for ((board_id, after_id), chunks) in pwb_chunks_map` (tree with the repair
of finding F10, commit 509cd0e: the packet must agree with the key of its chunks). -/
def groupStep (ops : Ops α) (run : Nat) (g : Group)
    (pad : Array (Option (List α))) : Outcome Err (Array (Option (List α))) :=
  match Pwb.reassemble g.2 with
  | .panic s => .panic s
  | .err e => .err (.badPadwing e)
  | .ok p =>
    if some (packetBoard p) ≠ g.1.1 then .err .padwingBoardIdMismatch else
    if Chunk.afterOfNat p.afterId ≠ g.1.2 then .err (.badPadwing .channelIdMismatch) else
    channelLoop ops run (keyRow g.1) (keyChip g.1) p p.channelsSent pad

def groupLoop (ops : Ops α) (run : Nat) :
    List Group → Array (Option (List α)) → Outcome Err (Array (Option (List α)))
  | [], pad => .ok pad
  | g :: gs, pad =>
    match groupStep ops run g pad with
    | .ok pad' => groupLoop ops run gs pad'
    | .err e => .err e
    | .panic s => .panic s

/-! ### `try_from_banks` -/

/-- Everything after the first loop. -/
def finish (ops : Ops α) (order : GroupOrder) (run : Nat) (st : St α) : Outcome Err (Event α) :=
  match groupLoop ops run (order.f st.groups) st.pad with
  | .panic s => .panic s
  | .err e => .err e
  | .ok pad =>
    match st.ts with
    | none => .err .missingTrgBank
    | some ts => .ok { wire := st.wire, pad := pad, ts := ts }

/-- `MainEvent::try_from_banks(run_number, banks)` with the `into_values()` order as parameter. -/
def buildEventWith (ops : Ops α) (order : GroupOrder) (run : Nat) (banks : List Bank) :
    Outcome Err (Event α) :=
  match bankLoop ops run banks St.init with
  | .panic s => .panic s
  | .err e => .err e
  | .ok st => finish ops order run st

/-- Executable instance (insertion order of the groups). -/
def buildEvent (ops : Ops α) (run : Nat) (banks : List Bank) : Outcome Err (Event α) :=
  buildEventWith ops GroupOrder.id run banks

/-- `MainEvent::timestamp`. -/
def timestamp (ev : Event α) : Outcome Unit Nat := .ok ev.ts

end AlphaG.Event
