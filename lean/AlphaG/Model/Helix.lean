/-
Model of `Helix::at` and `Helix::closest_t` (physics/src/reconstruction.rs) over a generic
carrier: the operations are a parameter (`HOps α`), instantiated with `Float` in the driver
(IEEE `+ - * /`, comparisons and the libm calls) and with an ordered structure in the theorems.
`uom` quantities are the identity on the SI base value (meters, radians). Core Lean only.
-/
namespace AlphaG.Helix

structure HOps (α : Type) where
  add : α → α → α
  sub : α → α → α
  mul : α → α → α
  div : α → α → α
  neg : α → α
  abs : α → α
  lt : α → α → Bool
  sin : α → α
  cos : α → α
  atan2 : α → α → α
  hypot : α → α → α
  floor : α → α
  zero : α
  one : α
  two : α
  four : α
  pi : α
  eps : α

/-- Helix parameters `[x0, y0, z0, r, phi0, h]`. -/
structure Params (α : Type) where
  x0 : α
  y0 : α
  z0 : α
  r : α
  phi0 : α
  h : α

/-- A space point in cylindrical coordinates, as `SpacePoint`. -/
structure Point (α : Type) where
  r : α
  phi : α
  z : α

variable {α : Type} (o : HOps α)

def px (p : Point α) : α := o.mul p.r (o.cos p.phi)
def py (p : Point α) : α := o.mul p.r (o.sin p.phi)

/-- `Helix::at`: `(r cos(t+φ₀) + x₀, r sin(t+φ₀) + y₀, (h / 2π)·t + z₀)`. -/
def helixAt (q : Params α) (t : α) : α × α × α :=
  (o.add (o.mul q.r (o.cos (o.add t q.phi0))) q.x0,
   o.add (o.mul q.r (o.sin (o.add t q.phi0))) q.y0,
   o.add (o.mul (o.div q.h (o.mul o.two o.pi)) t) q.z0)

/-- `angle_between_vectors`: `atan2(det, dot)`. -/
def angleBetween (v1 v2 : α × α) : α :=
  o.atan2 (o.sub (o.mul v1.1 v2.2) (o.mul v1.2 v2.1)) (o.add (o.mul v1.1 v2.1) (o.mul v1.2 v2.2))

/-- `f64::clamp` (for `lo ≤ hi`; a NaN passes through both comparisons unchanged). -/
def clamp (x lo hi : α) : α :=
  if o.lt x lo then lo else if o.lt hi x then hi else x

def kf (e m bigE : α) : α := o.sub (o.sub bigE (o.mul e (o.sin bigE))) m
def kdf (e bigE : α) : α := o.sub o.one (o.mul e (o.cos bigE))

/-- The Newton loop: at most `fuel` steps, stop as soon as `|f(E)| < tolerance`. -/
def newton (e m tol : α) : Nat → α → α
  | 0, bigE => bigE
  | fuel + 1, bigE =>
    let bigE' := o.sub bigE (o.div (kf o e m bigE) (kdf o e bigE))
    if o.lt (o.abs (kf o e m bigE')) tol then bigE' else newton e m tol fuel bigE'

/-- `Helix::closest_t(p, tolerance, max_num_iter)`. -/
def closestT (q : Params α) (p : Point α) (tolerance : α) (maxIter : Nat) : α :=
  if o.lt (o.abs q.h) o.eps then
    angleBetween o
      (o.sub (helixAt o q o.zero).1 q.x0, o.sub (helixAt o q o.zero).2.1 q.y0)
      (o.sub (px o p) q.x0, o.sub (py o p) q.y0)
  else
    let tol := o.abs tolerance
    let u := px o p
    let v := py o p
    let r := o.hypot (o.sub u q.x0) (o.sub v q.y0)
    let delta := o.atan2 (o.sub v q.y0) (o.sub u q.x0)
    let twoPi := o.mul o.two o.pi
    let temp := o.sub (o.add q.phi0 (o.div (o.mul twoPi (o.sub p.z q.z0)) q.h)) delta
    let n := o.floor (o.div temp twoPi)
    let m := o.sub (o.add o.pi (o.mul twoPi n)) temp
    let e := o.div (o.mul (o.mul (o.mul o.four (o.mul o.pi o.pi)) r) q.r) (o.mul q.h q.h)
    let e0 := if o.lt m o.zero then o.neg o.pi else o.pi
    let bigE := newton o e m tol maxIter e0
    let t := o.add (o.sub (o.add (o.sub o.pi bigE) (o.mul twoPi n)) q.phi0) delta
    clamp o t (o.neg o.pi) o.pi

end AlphaG.Helix
