import AlphaG.Model.Basic
import AlphaG.Model.Helix
import AlphaG.Model.Vertexing
/-
C14b — the INITIAL-GUESS stage of `fit_cluster_to_helix`
(physics/src/reconstruction/track_fitting.rs) and the initial simplex / bookkeeping of the vertex
fit in `find_vertices` (physics/src/reconstruction/vertex_fitting.rs), operation by operation,
over a generic carrier. The operations are a parameter (`TOps α` = `Helix.HOps α` plus `==`,
`partial_cmp`, `usize as f64` and two literals); the `Float` instance lives in the driver only,
Props/C14b instantiates an ordered field.

Conventions taken from the sources (all checked against the crates actually compiled in):
* `uom` quantities are the identity on the SI base value: `Length::new::<meter>(v)` is
  `v + (-0.0)` (= `v` bit for bit, uom's `ConstantOp::Add` constant is `-0.0`), `get` is
  `v / 1.0 - 0.0`, quantity `+ - * /` multiply the right operand by `1.0/1.0` factors only.
* `SpacePoint::x() = r * cos(phi)`, `y() = r * sin(phi)` (recomputed at every use).
* `itertools 0.11 minmax_by_key` is `minmax_impl` — elements are consumed **in pairs** with three
  comparisons per pair, `lt` is `key_a < key_b` (false on NaN, never panics); the trailing single
  element is `if lt(x, min) {min = x} else if !lt(x, max) {max = x}`. For a total order this is
  "first minimum, last maximum" (`Props/C14b.minmax_eq_firstMin_lastMax`).
* `Iterator::min_by(cmp)` is `reduce(|x, y| match cmp(&x, &y) { Greater => y, _ => x })`: the
  first minimum; `cmp` is `partial_cmp(..).unwrap()`, i.e. a panic when either side is NaN.
* `num_complex 0.4.4` on `Complex<f64>`: `Sub`, `Add` componentwise; `Mul` is
  `(a c − b d, a d + b c)`; `Div` is `((a c + b d)/n, (b c − a d)/n)` with `n = c c + d d`;
  `Complex − f64` subtracts from the real part only; `conj = (re, −im)`; `norm_sqr = re re + im im`;
  `norm = re.hypot(im)`.
* `f64::sum()` (used by `uom`'s `Sum`) folds from `-0.0` (Rust ≥ 1.83); `center_of_mass` folds from
  `Length::new::<meter>(0.0)` = `+0.0` explicitly.
Core Lean only.
-/
namespace AlphaG.TrackInit
open AlphaG.Helix (HOps Point Params px py angleBetween helixAt)

/-- `TryTrackFromClusterError`. -/
inductive FitError where
  | NoInitialParameters
deriving Repr, DecidableEq

structure TOps (α : Type) where
  /-- arithmetic, `<`, libm calls, literals (shared with the `closest_t` model) -/
  h : HOps α
  /-- `==` on `f64` (`-0.0 == 0.0`, `NaN != NaN`) -/
  eq : α → α → Bool
  /-- `f64::partial_cmp` (`none` when either side is NaN) -/
  cmp : α → α → Option Ordering
  /-- `usize as f64` -/
  ofNat : Nat → α
  /-- `-0.0`, the neutral element `f64::sum` starts from -/
  negZero : α
  /-- the literal `0.00025` -/
  simplexDefault : α

variable {α : Type} (o : TOps α)

/-! ### `itertools::minmax_by_key` (`minmax_impl`) and `Iterator::min_by` -/

section Iter
variable {P β : Type}

/-- `MinMaxResult`. -/
inductive MinMax (P : Type) where
  | noElements
  | oneElement (x : P)
  | minMax (mn mx : P)

/-- `MinMaxResult::into_option`. -/
def MinMax.intoOption : MinMax P → Option (P × P)
  | .noElements => none
  | .oneElement x => some (x, x)
  | .minMax a b => some (a, b)

/-- The `loop` of `minmax_impl` (state: current `min`, `max`; their keys are `key min`, `key max`). -/
def minmaxLoop (lt : β → β → Bool) (key : P → β) : List P → P → P → P × P
  | [], mn, mx => (mn, mx)
  | [a], mn, mx =>
    if lt (key a) (key mn) then (a, mx)
    else if !(lt (key a) (key mx)) then (mn, a)
    else (mn, mx)
  | a :: b :: rest, mn, mx =>
    if !(lt (key b) (key a)) then
      minmaxLoop lt key rest (if lt (key a) (key mn) then a else mn) (if !(lt (key b) (key mx)) then b else mx)
    else
      minmaxLoop lt key rest (if lt (key b) (key mn) then b else mn) (if !(lt (key a) (key mx)) then a else mx)

/-- `iter.minmax_by_key(key)` with `lt = |xk, yk| xk < yk`. -/
def minmaxByKey (lt : β → β → Bool) (key : P → β) : List P → MinMax P
  | [] => .noElements
  | [x] => .oneElement x
  | x :: y :: rest =>
    .minMax (minmaxLoop lt key rest (if !(lt (key y) (key x)) then x else y) (if !(lt (key y) (key x)) then y else x)).1
            (minmaxLoop lt key rest (if !(lt (key y) (key x)) then x else y) (if !(lt (key y) (key x)) then y else x)).2

/-- `Iterator::min_by(|a, b| cmp(a, b).unwrap())` after the first element: keeps the accumulated
element unless the comparison says `Greater`; a `None` comparison is the panic of `unwrap`. -/
def minByFold {ε : Type} (cmp : P → P → Option Ordering) (site : String) : P → List P → Outcome ε P
  | acc, [] => .ok acc
  | acc, y :: l =>
    match cmp acc y with
    | none => .panic site
    | some .gt => minByFold cmp site y l
    | some _ => minByFold cmp site acc l

end Iter

/-! ### `three_template_points` -/

def xOf (p : Point α) : α := px o.h p
def yOf (p : Point α) : α := py o.h p

/-- `(first.r + last.r) / 2.0`. -/
def midR (f l : Point α) : α := o.h.div (o.h.add f.r l.r) o.h.two

/-- `(p.r - middle_r).abs()`. -/
def devFrom (mid : α) (p : Point α) : α := o.h.abs (o.h.sub p.r mid)

/-- `(last.x() - first.x()) * (middle.y() - first.y()) == (middle.x() - first.x()) * (last.y() - first.y())`. -/
def collinear (f m l : Point α) : Bool :=
  o.eq (o.h.mul (o.h.sub (xOf o l) (xOf o f)) (o.h.sub (yOf o m) (yOf o f)))
       (o.h.mul (o.h.sub (xOf o m) (xOf o f)) (o.h.sub (yOf o l) (yOf o f)))

def siteMinmax : String := "three_template_points:minmax_unwrap"
def siteMinBy : String := "three_template_points:min_by_unwrap"
def sitePartialCmp : String := "three_template_points:partial_cmp_unwrap"
def siteAssertLen : String := "fit_cluster_to_helix:assert_len"

/-- The `min_by` search for the middle point. -/
def middleOf (f l : Point α) (p0 : Point α) (rest : List (Point α)) : Outcome FitError (Point α) :=
  minByFold (fun a b => o.cmp (devFrom o (midR o f l) a) (devFrom o (midR o f l) b)) sitePartialCmp p0 rest

/-- `three_template_points(points)`: `(smallest r, middle r, largest r)`, the error on exact
collinearity, a panic on an empty slice (`into_option().unwrap()`) or when a NaN reaches
`partial_cmp(..).unwrap()`. -/
def threeTemplatePoints (pts : List (Point α)) : Outcome FitError (Point α × Point α × Point α) :=
  match (minmaxByKey o.h.lt (fun p : Point α => p.r) pts).intoOption with
  | none => .panic siteMinmax
  | some (f, l) =>
    match pts with
    | [] => .panic siteMinBy
    | p0 :: rest =>
      match middleOf o f l p0 rest with
      | .ok m => if collinear o f m l then .err .NoInitialParameters else .ok (f, m, l)
      | .err e => .err e
      | .panic s => .panic s

/-! ### `num_complex::Complex<f64>` on `(re, im)` pairs and `circle_through_three_points` -/

def cSub (a b : α × α) : α × α := (o.h.sub a.1 b.1, o.h.sub a.2 b.2)
def cAdd (a b : α × α) : α × α := (o.h.add a.1 b.1, o.h.add a.2 b.2)
def cMul (a b : α × α) : α × α :=
  (o.h.sub (o.h.mul a.1 b.1) (o.h.mul a.2 b.2), o.h.add (o.h.mul a.1 b.2) (o.h.mul a.2 b.1))
def cNormSqr (a : α × α) : α := o.h.add (o.h.mul a.1 a.1) (o.h.mul a.2 a.2)
def cDiv (a b : α × α) : α × α :=
  (o.h.div (o.h.add (o.h.mul a.1 b.1) (o.h.mul a.2 b.2)) (cNormSqr o b),
   o.h.div (o.h.sub (o.h.mul a.2 b.1) (o.h.mul a.1 b.2)) (cNormSqr o b))
/-- `Complex<T> - T`. -/
def cSubReal (a : α × α) (t : α) : α × α := (o.h.sub a.1 t, a.2)
def cConj (a : α × α) : α × α := (a.1, o.h.neg a.2)
def cNorm (a : α × α) : α := o.h.hypot a.1 a.2

/-- `w = (z3 - z1) / (z2 - z1)`. -/
def circleW (z1 z2 z3 : α × α) : α × α := cDiv o (cSub o z3 z1) (cSub o z2 z1)
/-- `c' = (w - w.norm_sqr()) / (w - w.conj())`. -/
def circleCPrime (w : α × α) : α × α := cDiv o (cSubReal o w (cNormSqr o w)) (cSub o w (cConj o w))
/-- `c = (z2 - z1) * c' + z1`. -/
def circleC (z1 z2 z3 : α × α) : α × α :=
  cAdd o (cMul o (cSub o z2 z1) (circleCPrime o (circleW o z1 z2 z3))) z1

/-- `circle_through_three_points(p1, p2, p3) = (c.re, c.im, (z1 - c).norm())`. -/
def circleThrough (z1 z2 z3 : α × α) : α × α × α :=
  ((circleC o z1 z2 z3).1, (circleC o z1 z2 z3).2, cNorm o (cSub o z1 (circleC o z1 z2 z3)))

/-! ### `center_of_mass` -/

def comStep (acc : α × α × α) (p : Point α) : α × α × α :=
  (o.h.add acc.1 (xOf o p), o.h.add acc.2.1 (yOf o p), o.h.add acc.2.2 p.z)

def comSum (pts : List (Point α)) : α × α × α := pts.foldl (comStep o) (o.h.zero, o.h.zero, o.h.zero)

def centerOfMass (pts : List (Point α)) : α × α × α :=
  (o.h.div (comSum o pts).1 (o.ofNat pts.length),
   o.h.div (comSum o pts).2.1 (o.ofNat pts.length),
   o.h.div (comSum o pts).2.2 (o.ofNat pts.length))

/-! ### The initial guess and the initial simplex -/

def circleOf (f m l : Point α) : α × α × α :=
  circleThrough o (xOf o f, yOf o f) (xOf o m, yOf o m) (xOf o l, yOf o l)

/-- `theta = angle_between_vectors((last − c), (first − c))`. -/
def thetaOf (f m l : Point α) : α :=
  angleBetween o.h
    (o.h.sub (xOf o l) (circleOf o f m l).1, o.h.sub (yOf o l) (circleOf o f m l).2.1)
    (o.h.sub (xOf o f) (circleOf o f m l).1, o.h.sub (yOf o f) (circleOf o f m l).2.1)

/-- `h = if theta == 0.0 { 0.0 } else { 2.0 * PI * (first.z - last.z) / theta }`. -/
def pitchOf (f m l : Point α) : α :=
  if o.eq (thetaOf o f m l) o.h.zero then o.h.zero
  else o.h.div (o.h.mul (o.h.mul o.h.two o.h.pi) (o.h.sub f.z l.z)) (thetaOf o f m l)

/-- `phi0 = (cm.y - y0).atan2(cm.x - x0)`. -/
def phi0Of (pts : List (Point α)) (f m l : Point α) : α :=
  o.h.atan2 (o.h.sub (centerOfMass o pts).2.1 (circleOf o f m l).2.1)
            (o.h.sub (centerOfMass o pts).1 (circleOf o f m l).1)

/-- `initial_guess = [x0, y0, z0, r, phi0, h]`. -/
def initialGuess (pts : List (Point α)) (f m l : Point α) : List α :=
  [(circleOf o f m l).1, (circleOf o f m l).2.1, (centerOfMass o pts).2.2, (circleOf o f m l).2.2,
   phi0Of o pts f m l, pitchOf o f m l]

/-- One coordinate of the scipy-style perturbation:
`if x == 0.0 { 0.00025 } else { x * (1.0 + delta) }`. -/
def perturbValue (delta x : α) : α :=
  if o.eq x o.h.zero then o.simplexDefault else o.h.mul x (o.h.add o.h.one delta)

/-- `new_point = guess.clone(); new_point[i] = perturbed`. -/
def perturbAt (delta : α) (g : List α) (i : Nat) : List α :=
  g.set i (perturbValue o delta (g.getD i o.h.zero))

/-- `initial_simplex`: the guess followed by one perturbed copy per coordinate. -/
def initialSimplex (delta : α) (g : List α) : List (List α) :=
  g :: (List.range g.length).map (perturbAt o delta g)

/-- `fit_cluster_to_helix` up to (and including) the construction of the initial simplex. -/
def fitInit (delta : α) (pts : List (Point α)) : Outcome FitError (List (List α)) :=
  if pts.length < 3 then .panic siteAssertLen
  else
    match threeTemplatePoints o pts with
    | .ok (f, m, l) => .ok (initialSimplex o delta (initialGuess o pts f m l))
    | .err e => .err e
    | .panic s => .panic s

/-! ### Vertex fit: `closest_to_beamline`, `arc_length`, `beamline_clusters`, initial simplex -/

/-- A `Track`: helix parameters and `t_inner`, `t_outer`. -/
structure TrackP (α : Type) where
  q : Params α
  tInner : α
  tOuter : α

/-- `Helix::closest_to_beamline`. -/
def closestToBeamline (q : Params α) : α × α × α :=
  helixAt o.h q
    (angleBetween o.h
      (o.h.sub (helixAt o.h q o.h.zero).1 q.x0, o.h.sub (helixAt o.h q o.h.zero).2.1 q.y0)
      (o.h.neg q.x0, o.h.neg q.y0))

/-- `closest_to_beamline().z`. -/
def beamZ (t : TrackP α) : α := (closestToBeamline o t.q).2.2

/-- `Helix::arc_length(t1, t2)`. -/
def arcLength (q : Params α) (t1 t2 : α) : α :=
  o.h.hypot (o.h.mul q.r (o.h.abs (o.h.sub t2 t1)))
    (o.h.abs (o.h.sub (helixAt o.h q t2).2.2 (helixAt o.h q t1).2.2))

/-- `iter.sum::<f64>()`. -/
def fsum (l : List α) : α := l.foldl o.h.add o.negZero

/-- Mean `z` of closest approach of a cluster (second component of `beamline_clusters`' items). -/
def clusterMeanZ (c : List (TrackP α)) : α :=
  o.h.div (fsum o (c.map (beamZ o))) (o.ofNat c.length)

/-- The two `filter`s of `find_vertices` selecting the primary-vertex seed. -/
def keepTrack (minLen maxDca : α) (t : TrackP α) : Bool :=
  o.h.lt minLen (arcLength o t.q t.tInner t.tOuter)
    && o.h.lt (o.h.abs (o.h.sub t.q.r (o.h.hypot t.q.x0 t.q.y0))) maxDca

/-- Derived `PartialEq` of `Track` (eight `f64` comparisons). -/
def trackEq (a b : TrackP α) : Bool :=
  o.eq a.q.x0 b.q.x0 && o.eq a.q.y0 b.q.y0 && o.eq a.q.z0 b.q.z0 && o.eq a.q.r b.q.r
    && o.eq a.q.phi0 b.q.phi0 && o.eq a.q.h b.q.h && o.eq a.tInner b.tInner && o.eq a.tOuter b.tOuter

/-- Insertion of `x` into a list sorted by `key` with `<` (stable). -/
def insertBy {P : Type} (key : P → α) (x : P) : List P → List P
  | [] => [x]
  | y :: l => if o.h.lt (key x) (key y) then x :: y :: l else y :: insertBy key x l

/-- `sort_unstable_by(|a, b| key(a).partial_cmp(&key(b)).unwrap())`: slices shorter than 2 are
returned untouched (no comparison happens); otherwise every element takes part in at least one
comparison, so the `unwrap` panics iff some key is NaN. The order among equal keys is unspecified
for the real (unstable) sort; this model is the stable choice. -/
def sortByKey {P : Type} (key : P → α) (l : List P) : Option (List P) :=
  if l.length < 2 then some l
  else if l.any (fun x => (o.cmp (key x) (key x)).isNone) then none
  else some (l.foldl (fun acc x => insertBy o key x acc) [])

/-- The parameters of `Vertexing.findVertices` computed from the tracks (indices into `ts`). -/
def vertexCtx (minLen maxDca maxDist : α) (ts : Array (TrackP α)) (dflt : TrackP α) : Vertexing.Ctx where
  eq := fun i j => trackEq o (ts.getD i dflt) (ts.getD j dflt)
  keep := fun i => keepTrack o minLen maxDca (ts.getD i dflt)
  sort := fun l => sortByKey o (fun i => beamZ o (ts.getD i dflt)) l
  close := fun t l => o.h.lt (o.h.abs (o.h.sub (beamZ o (ts.getD t dflt)) (beamZ o (ts.getD l dflt)))) maxDist
  cmp := fun a b => o.cmp (fsum o (a.map (fun i => (ts.getD i dflt).q.r))) (fsum o (b.map (fun i => (ts.getD i dflt).q.r)))

/-- `beamline_clusters(tracks, max)`: the clusters (as index lists) with their mean `z`. -/
def beamlineClusters (maxDist : α) (ts : Array (TrackP α)) (dflt : TrackP α) :
    Outcome Unit (List (List Nat × α)) :=
  match Vertexing.beamlineClusters (vertexCtx o maxDist maxDist maxDist ts dflt) (List.range ts.size) with
  | .ok cls => .ok (cls.map (fun c => (c, clusterMeanZ o (c.map (fun i => ts.getD i dflt)))))
  | .err e => .err e
  | .panic s => .panic s

/-- `initial_guess = vec![0.0, 0.0, mean_z]`. -/
def vertexGuess (meanZ : α) : List α := [o.h.zero, o.h.zero, meanZ]

/-- `find_vertices` up to the initial simplex of the vertex fit: `none` when no beamline cluster has
more than one track (no fit is run), otherwise the chosen cluster and the 4×3 simplex. -/
def vertexInit (minLen maxDca maxDist delta : α) (ts : Array (TrackP α)) (dflt : TrackP α) :
    Outcome Unit (Option (List Nat × List (List α))) :=
  match Vertexing.beamlineClusters (vertexCtx o minLen maxDca maxDist ts dflt)
      ((List.range ts.size).filter (vertexCtx o minLen maxDca maxDist ts dflt).keep) with
  | .ok cls =>
    match Vertexing.maxBy (vertexCtx o minLen maxDca maxDist ts dflt).cmp
        (Vertexing.maxSetByKey List.length (cls.filter (fun c => decide (1 < c.length)))) with
    | .ok none => .ok none
    | .ok (some c) =>
      .ok (some (c, initialSimplex o delta (vertexGuess o (clusterMeanZ o (c.map (fun i => ts.getD i dflt))))))
    | .err e => .err e
    | .panic s => .panic s
  | .err e => .err e
  | .panic s => .panic s

end AlphaG.TrackInit
