import AlphaG.Model.Basic
import AlphaG.Generated.Boards
/-
Model of `AdcV3Packet::try_from(&[u8])` / `AdcPacket::try_from(&[u8])` and of the small id
conversions of detector/src/alpha16.rs (`ModuleId`, `Adc16ChannelId`, `Adc32ChannelId`,
`BoardId` from a MAC address / from a name), transcribed check by check in the order of the
Rust code (tree with the `requested_samples.saturating_sub(2)` fix), with the code's masks and
shifts. Every `slice[a..b]`, `try_into().unwrap()`, `usize`/`u8` subtraction and the `i32`
accumulation of the baseline is a panic guard. The specification `AdcWellFormed`
(Props/C02.lean) is phrased on *fields* from the documentation table.

Additions of small constants to a slice length (`waveform_bytes + 36`, `+ 37`,
`last_index + 1`; they only feed error payloads) are not guarded: a Rust slice has
`len ≤ isize::MAX`, and `last_index ≤ 8186`; see `adc_no_overflow` in Props/C02.lean.
-/
namespace AlphaG.Adc

/-! ### Id conversions (`TryFrom<u8>`, `TryFrom<[u8; 6]>`, `TryFrom<&str>`) -/

/-- `ModuleId::try_from(num: u8)`. -/
def moduleIdFromU8 (n : Nat) : Outcome Unit Nat := if n > 7 then .err () else .ok n
/-- `Adc16ChannelId::try_from(num: u8)`. -/
def adc16FromU8 (n : Nat) : Outcome Unit Nat := if n > 15 then .err () else .ok n
/-- `Adc32ChannelId::try_from(num: u8)`. -/
def adc32FromU8 (n : Nat) : Outcome Unit Nat := if n > 31 then .err () else .ok n

/-- The `for pair in ALPHA16BOARDS { if mac == pair.1 { return … } }` loop: first match. -/
def findBoard (mac : List Nat) : Option (String × List Nat) :=
  AlphaG.Generated.alpha16Boards.find? (fun p => p.2 == mac)

/-- The `for pair in ALPHA16BOARDS { if name == pair.0 { return … } }` loop: first match. -/
def findBoardByName (name : String) : Option (String × List Nat) :=
  AlphaG.Generated.alpha16Boards.find? (fun p => p.1 == name)

/-- `BoardId::try_from(mac: [u8; 6])`. -/
def boardFromMac (mac : List Nat) : Outcome Unit (String × List Nat) :=
  match findBoard mac with
  | some p => .ok p
  | none => .err ()

/-- `BoardId::try_from(name: &str)`. -/
def boardFromName (name : String) : Outcome Unit (String × List Nat) :=
  match findBoardByName name with
  | some p => .ok p
  | none => .err ()

/-! ### The packet -/

inductive ChannelId where
  | a16 (n : Nat)
  | a32 (n : Nat)
deriving Repr, DecidableEq

structure Packet where
  acceptedTrigger : Nat
  moduleId : Nat
  channelId : ChannelId
  requestedSamples : Nat
  eventTimestamp : Nat
  /-- `(name, mac_address)` of the `BoardId`. -/
  boardId : Option (String × List Nat)
  triggerOffset : Option Int
  buildTimestamp : Option Nat
  waveform : List Int
  suppressionBaseline : Int
  keepLast : Nat
  keepBit : Bool
  suppressionEnabled : Bool
deriving Repr, DecidableEq

inductive Err where
  | incompleteSlice | unknownType | unknownVersion | unknownModuleId | unknownChannelId
  | zeroMismatch | unknownMac | baselineMismatch | badKeepLast | keepBitMismatch
  | badNumberOfSamples
deriving Repr, DecidableEq

/-- `chunks_exact(2).map(|b| i16::from_be_bytes(b.try_into().unwrap()))` (a trailing odd byte is
dropped by `chunks_exact`; the decoder rejects odd lengths before). -/
def i16s : List UInt8 → List Int
  | a :: c :: rest => toSigned 16 (a.toNat * 256 + c.toNat) :: i16s rest
  | _ => []

/-- `iter().map(i32::from).sum::<i32>()`: with overflow checks every partial sum must fit in
an `i32`. -/
def sumFitsI32 : Int → List Int → Bool
  | _, [] => true
  | acc, x :: xs =>
    decide (-2147483648 ≤ acc + x ∧ acc + x ≤ 2147483647) && sumFitsI32 (acc + x) xs

/-- `let d = num / 64; if num % 64 < 0 { d - 1 } else { d }` with Rust's truncating `/`, `%`. -/
def floorDiv64 (num : Int) : Int :=
  if Int.tmod num 64 < 0 then Int.tdiv num 64 - 1 else Int.tdiv num 64

/-! Values read from the slice, as expressions of the input. -/

/-- `u16::from_be_bytes(slice[len-4..][..2])`. -/
def footer (b : List UInt8) : Nat := beAt b (b.length - 4) 2
/-- `i16::from_be_bytes(slice[len-2..])`. -/
def suppBaseline (b : List UInt8) : Int := toSigned 16 (beAt b (b.length - 2) 2)
/-- `usize::from(footer & 0xFFF)`. -/
def keepLast (b : List UInt8) : Nat := footer b &&& 0xFFF
/-- `(footer >> 12) & 1 == 1`. -/
def keepBit (b : List UInt8) : Bool := decide ((footer b >>> 12) &&& 1 = 1)
/-- `(footer >> 13) & 1 == 1`. -/
def supp (b : List UInt8) : Bool := decide ((footer b >>> 13) &&& 1 = 1)
/-- `ChannelId::A16(c)` for `c < 128`, `ChannelId::A32(c - 128)` otherwise. -/
def chan (b : List UInt8) : ChannelId :=
  if byteAt b 5 < 128 then .a16 (byteAt b 5) else .a32 (byteAt b 5 - 128)
/-- `slice[14..20]` as `[u8; 6]`. -/
def macAt (b : List UInt8) : List Nat :=
  [byteAt b 14, byteAt b 15, byteAt b 16, byteAt b 17, byteAt b 18, byteAt b 19]
/-- `requested_samples.saturating_sub(2)` (natural-number subtraction saturates). -/
def maxSamples (b : List UInt8) : Nat := beAt b 6 2 - 2
/-- `slice[32..][..slice.len() - 36]` decoded into `i16`s. -/
def wave (b : List UInt8) : List Int := i16s ((b.drop 32).take (b.length - 36))
/-- `waveform[..64].iter().map(i32::from).sum()` followed by the floor correction. -/
def dataBaseline (b : List UInt8) : Int := floorDiv64 ((wave b).take 64).sum
/-- `(keep_last - 1) * 2 - 2`. -/
def lastIndex (b : List UInt8) : Nat := (keepLast b - 1) * 2 - 2

def shortPacket (b : List UInt8) : Packet :=
  { acceptedTrigger := beAt b 2 2, moduleId := byteAt b 4, channelId := chan b,
    requestedSamples := beAt b 6 2, eventTimestamp := beAt b 8 4, boardId := none,
    triggerOffset := none, buildTimestamp := none, waveform := [],
    suppressionBaseline := suppBaseline b, keepLast := keepLast b, keepBit := keepBit b,
    suppressionEnabled := supp b }

def longPacket (b : List UInt8) : Packet :=
  { acceptedTrigger := beAt b 2 2, moduleId := byteAt b 4, channelId := chan b,
    requestedSamples := beAt b 6 2,
    -- `[msw, lsw].concat()` read as a big-endian `u64`
    eventTimestamp := beAt b 20 4 * 4294967296 + beAt b 8 4,
    boardId := findBoard (macAt b),
    triggerOffset := some (toSigned 32 (beAt b 24 4)), buildTimestamp := some (beAt b 28 4),
    waveform := wave b, suppressionBaseline := suppBaseline b, keepLast := keepLast b,
    keepBit := keepBit b, suppressionEnabled := supp b }

def decode (b : List UInt8) : Outcome Err Packet :=
  if b.length < 16 then .err .incompleteSlice else
  needBytes "adc:type" b 0 1 <|
  if byteAt b 0 ≠ 1 then .err .unknownType else
  needBytes "adc:version" b 1 1 <|
  if byteAt b 1 ≠ 3 then .err .unknownVersion else
  needBytes "adc:accepted_trigger" b 2 2 <|
  needBytes "adc:module_id" b 4 1 <|
  if byteAt b 4 > 7 then .err .unknownModuleId else
  needBytes "adc:channel_id" b 5 1 <|
  if byteAt b 5 < 128 ∧ byteAt b 5 > 15 then .err .unknownChannelId else
  -- `channel_id - 128` on `u8` in the `else` branch of `channel_id < 128`
  need "adc:channel_id-128" (decide (byteAt b 5 < 128 ∨ 128 ≤ byteAt b 5)) <|
  if ¬ byteAt b 5 < 128 ∧ byteAt b 5 - 128 > 31 then .err .unknownChannelId else
  needBytes "adc:requested_samples" b 6 2 <|
  needBytes "adc:lsw_event_timestamp" b 8 4 <|
  -- `slice[slice.len() - 2..]` and `.try_into().unwrap()` into `[u8; 2]`
  need "adc:len-2" (decide (2 ≤ b.length)) <|
  needBytes "adc:suppression_baseline" b (b.length - 2) 2 <|
  -- `slice[slice.len() - 4..][..2]`
  need "adc:len-4" (decide (4 ≤ b.length)) <|
  needBytes "adc:footer" b (b.length - 4) 2 <|
  if b.length = 16 then
    (if ¬ supp b then .err .incompleteSlice else
     if keepBit b then .err .keepBitMismatch else
     if keepLast b ≠ 0 then .err .badKeepLast else
     .ok (shortPacket b))
  else
  if b.length < 36 then .err .incompleteSlice else
  needBytes "adc:zero" b 12 2 <|
  -- the error path re-slices `slice[12..14].try_into().unwrap()`
  if beAt b 12 2 ≠ 0 then needBytes "adc:zero-found" b 12 2 (.err .zeroMismatch) else
  needBytes "adc:mac" b 14 6 <|
  if (findBoard (macAt b)).isNone then .err .unknownMac else
  needBytes "adc:msw_event_timestamp" b 20 4 <|
  needBytes "adc:trigger_offset" b 24 4 <|
  needBytes "adc:build_timestamp" b 28 4 <|
  -- `slice.len() - 36`
  need "adc:len-36" (decide (36 ≤ b.length)) <|
  if (b.length - 36) % 2 ≠ 0 then .err .incompleteSlice else
  -- `slice[32..][..waveform_bytes]`
  need "adc:slice32" (decide (32 ≤ b.length)) <|
  needBytes "adc:waveform" b 32 (b.length - 36) <|
  if (wave b).length < 64 then .err .badNumberOfSamples else
  -- `waveform[..BASELINE_SAMPLES]`
  need "adc:baseline-slice" (decide (64 ≤ (wave b).length)) <|
  need "adc:baseline-sum-i32" (sumFitsI32 0 ((wave b).take 64)) <|
  -- the error path converts `data_baseline.try_into().unwrap()` into `i16`
  if dataBaseline b ≠ suppBaseline b then
    need "adc:data_baseline-i16" (decide (-32768 ≤ dataBaseline b ∧ dataBaseline b ≤ 32767))
      (.err .baselineMismatch)
  else
  if supp b then
    (if ¬ keepBit b then .err .keepBitMismatch else
     if keepLast b < 34 then .err .badKeepLast else
     need "adc:keep_last-1" (decide (1 ≤ keepLast b)) <|
     need "adc:last_index" (decide (2 ≤ (keepLast b - 1) * 2)) <|
     if (wave b).length ≤ lastIndex b then .err .badNumberOfSamples else
     if (wave b).length > maxSamples b then .err .badNumberOfSamples else
     .ok (longPacket b))
  else
    (if keepBit b then
       (if keepLast b < 34 then .err .badKeepLast else
        need "adc:keep_last-1" (decide (1 ≤ keepLast b)) <|
        need "adc:last_index" (decide (2 ≤ (keepLast b - 1) * 2)) <|
        if (wave b).length ≤ lastIndex b then .err .badNumberOfSamples else
        if (wave b).length ≠ maxSamples b then .err .badNumberOfSamples else
        .ok (longPacket b))
     else
       (if keepLast b ≠ 0 then .err .badKeepLast else
        if (wave b).length ≠ maxSamples b then .err .badNumberOfSamples else
        .ok (longPacket b)))

/-- `AdcPacket::try_from`: `Ok(AdcPacket::V3(AdcV3Packet::try_from(slice)?))`; the wrapper's
accessors forward to the V3 packet (wrapping the suppression fields in `Some`). -/
def decodeAdcPacket (b : List UInt8) : Outcome Err Packet := decode b

/-! ### Re-encoding of the accessor values (documentation table) -/

def footerWord (p : Packet) : Nat :=
  p.keepLast + (if p.keepBit then 4096 else 0) + (if p.suppressionEnabled then 8192 else 0)

def channelByte : ChannelId → Nat
  | .a16 n => n
  | .a32 n => 128 + n

def encodeSamples : List Int → List UInt8
  | [] => []
  | s :: rest => beBytes (ofSigned 16 s) 2 ++ encodeSamples rest

def encodeFooter (p : Packet) : List UInt8 :=
  beBytes (footerWord p) 2 ++ beBytes (ofSigned 16 p.suppressionBaseline) 2

/-- The short (16-byte) form is used exactly when the packet has no board id (then it has no
trigger offset, build timestamp or waveform either). -/
def encode (p : Packet) : List UInt8 :=
  [1, 3] ++ beBytes p.acceptedTrigger 2 ++ [UInt8.ofNat p.moduleId]
  ++ [UInt8.ofNat (channelByte p.channelId)] ++ beBytes p.requestedSamples 2
  ++ beBytes (p.eventTimestamp % 4294967296) 4
  ++ (match p.boardId with
      | none => encodeFooter p
      | some board =>
        beBytes 0 2 ++ board.2.map UInt8.ofNat ++ beBytes (p.eventTimestamp / 4294967296) 4
        ++ beBytes (ofSigned 32 (p.triggerOffset.getD 0)) 4 ++ beBytes (p.buildTimestamp.getD 0) 4
        ++ encodeSamples p.waveform ++ encodeFooter p)

end AlphaG.Adc
