import AlphaG.Model.Avalanches
import AlphaG.Model.Drift
import AlphaG.Model.Hough
import AlphaG.Model.NelderMead
/-
C09b — `MainEvent::vertex()` (physics/src/lib.rs) as the composition of the stage models, on the
calibrated signals of an event:

    avalanches()                                        Avalanches.run            (C13b)
      .into_iter().filter_map(|a| a.try_into().ok())    Drift.spacePoint          (C18)
    cluster_spacepoints(points).clusters                Hough.clusterX 13 250 230 3 cm   (C15b)
      .into_iter().filter_map(|c| c.try_into().ok())    NelderMead.fitCluster 100 ε 0.05 20 ε   (C14b/C14c)
    find_vertices(tracks)                               NelderMead.findVertexFit 3.5 cm 5.3 cm 3.4 cm
                                                          0.05 20 ε 100 ε  + the remainder loop
      .primary.map(|info| info.position)                VertexFit.position

Exactly the glue of the Rust function:
* `filter_map(.. .ok())` drops the `Err` values (drift time / axial position out of range,
  `NoInitialParameters`) and keeps the order; it does **not** catch panics: the elements are
  converted one after the other and the first panic is the panic of `vertex()` (`filterMapOk`);
* every stage is run to completion before the next one starts (`collect()`), so the first panic
  in stage order, and within a stage in element order, wins;
* `Avalanche { t: Time::new::<second>(t as f64 / ADC32_RATE), phi: Angle::new::<radian>(
  TpcWirePosition(w).phi()), z, .. }` (matching.rs): the stage model of `avalanches()` keeps the
  time *bin* and the wire *index* (`Matching.Avalanche`); `toDriftAvalanche` applies the two
  conversions (`TpcWirePosition::phi` = `ANODE_WIRE_PITCH_PHI * ((w.wrapping_sub(8) & 0xff) as
  f64 + 0.5)`), `uom`'s `new` being the identity on the SI base value;
* `SpacePoint`, `Cluster(Vec<SpacePoint>)`, `Track` are moved by value: a cluster of the clustering
  model is a list of indices into the point vector and is turned back into the list of points in
  the same order (`clusterPoints`), the tracks become the input array of the vertex model;
* `find_vertices` returns `VertexingResult { primary, secondaries, remainder }`: after the fit of the
  primary vertex the remainder loop (`tracks.iter().position(|t| t == track).unwrap()`,
  `swap_remove`) runs over the tracks of the vertex — `Vertexing.removeTracks` — and may panic;
  `vertex()` then projects `primary.map(|info| info.position)`.

All literal arguments are the ones of `reconstruction.rs` (`cluster_spacepoints`,
`impl TryFrom<Cluster> for Track`, `find_vertices`): the integers are literals here, the `f64`
ones are fields of `Consts` (the driver fills in the `f64` values, `consts` request checks them
against the built code through the stage hooks).

Carrier-generic (the stage models are); the `Float` instance lives in `Driver/C09b.lean`.
Core Lean only.
-/
namespace AlphaG.VertexPipeline
open AlphaG

/-- The `f64` literals `reconstruction.rs` passes to the stages, and the two conversion constants
of `match_column_inputs`. -/
structure Consts (α : Type) where
  /-- `ADC32_RATE` (62.5e6) -/
  adcRate : α
  /-- `ANODE_WIRE_PITCH_PHI` -/
  wirePitchPhi : α
  /-- `0.5` -/
  half : α
  /-- `Length::new::<centimeter>(3.0)`: maximum clustering distance -/
  maxClusterDistance : α
  /-- `f64::EPSILON`: Nelder–Mead sd tolerance and `closest_t` tolerance (both fits) -/
  epsilon : α
  /-- `0.05`: initial simplex delta (both fits) -/
  delta : α
  /-- `Length::new::<centimeter>(3.5)` -/
  minTrackLength : α
  /-- `Length::new::<centimeter>(5.3)` -/
  maxTrackBeamlineDca : α
  /-- `Length::new::<centimeter>(3.4)` -/
  maxBeamlineClusteringDistance : α

/-- Minimum number of space points per cluster. -/
def minClusterSize : Nat := 13
/-- Bins along `rho` in Hough space. -/
def rhoBins : Nat := 250
/-- Bins along `theta` in Hough space. -/
def thetaBins : Nat := 230
/-- Maximum number of Nelder–Mead iterations (both fits). -/
def maxSolverIters : Nat := 100
/-- Maximum number of `closest_t` iterations (both fits). -/
def maxClosestTIters : Nat := 20

/-- A renaming of Hough bin codes, boxed: `Pipe.ren pts` is then a saturated call returning a
structure, evaluated once per point cloud (a curried `… → Nat → Nat` field would be re-evaluated
at every lookup by the compiled code). -/
structure Renaming where
  fn : Nat → Nat

/-- Everything `vertex()` computes with: the operation tables of the stage models (all of them are
the same `f64` arithmetic in the driver), their data tables, the conversion `usize as f64`, the
renaming of Hough bin codes (any function that is injective on each point's codes, see
`Hough.ctxOf`; the driver ranks the codes by first appearance) and the literals. -/
structure Pipe (α : Type) where
  deconv : Deconv.Ops α
  geo : Matching.Geo α
  sorter : Matching.Sorter α
  tables : Avalanches.Tables α
  drift : Drift.Ops α
  driftTables : List (Drift.Slice α)
  hough : Hough.Ops α
  fit : NelderMead.FOps α
  /-- `usize as f64` -/
  ofNat : Nat → α
  ren : Array (Hough.Point α) → Renaming
  c : Consts α

variable {α : Type} (P : Pipe α)

/-! ### The glue -/

/-- `iter.filter_map(|x| f(x).ok()).collect()` for a conversion that may panic: errors are
dropped, the first panic (in element order) aborts. -/
def filterMapOk {ε β γ : Type} (f : β → Outcome ε γ) : List β → Outcome Unit (List γ)
  | [] => .ok []
  | x :: xs =>
    match f x with
    | .panic s => .panic s
    | .err _ => filterMapOk f xs
    | .ok y =>
      match filterMapOk f xs with
      | .ok ys => .ok (y :: ys)
      | .err e => .err e
      | .panic s => .panic s

/-- `TpcWirePosition(w).phi()`: `ANODE_WIRE_PITCH_PHI * ((w.wrapping_sub(8) & 0xff) as f64 + 0.5)`. -/
def wirePhi (w : Nat) : α :=
  P.drift.mul P.c.wirePitchPhi (P.drift.add (P.ofNat (((w + 2 ^ 64 - 8) % 2 ^ 64) &&& 0xff)) P.c.half)

/-- `t as f64 / ADC32_RATE`. -/
def binTime (t : Nat) : α := P.drift.div (P.ofNat t) P.c.adcRate

/-- The `Avalanche` value `match_column_inputs` builds, as far as `SpacePoint::try_from` reads it. -/
def toDriftAvalanche (a : Matching.Avalanche α) : Drift.Avalanche α :=
  { t := binTime P a.t, phi := wirePhi P a.wire, z := a.z }

/-- `SpacePoint::try_from(avalanche)`. -/
def pointOf (a : Matching.Avalanche α) : Outcome Drift.Err (Drift.SpacePoint α) :=
  Drift.spacePoint P.drift P.driftTables (toDriftAvalanche P a)

def toHough (p : Drift.SpacePoint α) : Hough.Point α := ⟨p.r, p.phi, p.z⟩
def toHelix (p : Hough.Point α) : Helix.Point α := ⟨p.r, p.phi, p.z⟩

/-- The parameters `reconstruction::cluster_spacepoints` passes on. -/
def houghParams : Hough.Params α := ⟨rhoBins, thetaBins, P.c.maxClusterDistance⟩

/-- The `Cluster(Vec<SpacePoint>)` of a cluster of indices. -/
def clusterPoints (pts : Array (Hough.Point α)) (c : List Nat) : List (Helix.Point α) :=
  c.filterMap fun i => (pts[i]?).map toHelix

/-- `Track::try_from(cluster)` with the literals of `reconstruction.rs`. -/
def fitOf (pts : List (Helix.Point α)) : Outcome TrackInit.FitError (TrackInit.TrackP α) :=
  NelderMead.fitCluster P.fit maxSolverIters P.c.epsilon P.c.delta maxClosestTIters P.c.epsilon pts

/-- The default element of the track array lookups (never read: every index is in range). -/
def dfltTrack : TrackInit.TrackP α :=
  ⟨⟨P.fit.t.h.zero, P.fit.t.h.zero, P.fit.t.h.zero, P.fit.t.h.zero, P.fit.t.h.zero, P.fit.t.h.zero⟩,
   P.fit.t.h.zero, P.fit.t.h.zero⟩

/-- The bookkeeping context of `find_vertices` for the fitted tracks. -/
def vertexCtx (ts : Array (TrackInit.TrackP α)) : Vertexing.Ctx :=
  TrackInit.vertexCtx P.fit.t P.c.minTrackLength P.c.maxTrackBeamlineDca
    P.c.maxBeamlineClusteringDistance ts (dfltTrack P)

/-- `find_vertices(tracks)` up to the fitted primary vertex, with the literals of
`reconstruction.rs`. -/
def vertexFitOf (ts : Array (TrackInit.TrackP α)) : Outcome Unit (Option (NelderMead.VertexFit α)) :=
  NelderMead.findVertexFit P.fit P.c.minTrackLength P.c.maxTrackBeamlineDca
    P.c.maxBeamlineClusteringDistance P.c.delta maxClosestTIters P.c.epsilon maxSolverIters
    P.c.epsilon ts (dfltTrack P)

/-- The remainder loop of `find_vertices` over the tracks of the primary vertex (its result, the
remainder, is dropped by `vertex()`; its `position(..).unwrap()` is not). -/
def remainderOf (ts : Array (TrackInit.TrackP α)) (v : Option (NelderMead.VertexFit α)) :
    Outcome Unit (List Nat) :=
  Vertexing.removeTracks (vertexCtx P ts) ((v.map (·.cluster)).getD []) (List.range ts.size)

/-! ### The stages, each as a function of the previous stage's value -/

/-- Stage 1: `self.avalanches()`. -/
def stageAvalanches (ev : Matching.Event α) : Outcome Unit (List (Matching.Avalanche α)) :=
  Avalanches.run P.deconv P.geo P.sorter P.tables ev

/-- Stage 2: `.into_iter().filter_map(|avalanche| avalanche.try_into().ok()).collect()`. -/
def stagePoints (avs : List (Matching.Avalanche α)) : Outcome Unit (Array (Hough.Point α)) :=
  match filterMapOk (pointOf P) avs with
  | .ok sps => .ok (sps.map toHough).toArray
  | .err e => .err e
  | .panic s => .panic s

/-- Stage 3: `cluster_spacepoints(points)` (`.clusters` is taken by the next stage). -/
def stageClusters (pts : Array (Hough.Point α)) : Outcome Unit Cluster.Result :=
  Hough.clusterX P.hough (P.ren pts).fn (houghParams P) minClusterSize pts

/-- Stage 4: `.clusters.into_iter().filter_map(|cluster| cluster.try_into().ok()).collect()`. -/
def stageTracks (pts : Array (Hough.Point α)) (clusters : List (List Nat)) :
    Outcome Unit (Array (TrackInit.TrackP α)) :=
  match filterMapOk (fun c => fitOf P (clusterPoints pts c)) clusters with
  | .ok ts => .ok ts.toArray
  | .err e => .err e
  | .panic s => .panic s

/-- Stage 5: `find_vertices(tracks).primary.map(|info| info.position)`. -/
def stageVertex (ts : Array (TrackInit.TrackP α)) : Outcome Unit (Option (α × α × α)) :=
  match vertexFitOf P ts with
  | .ok v =>
    match remainderOf P ts v with
    | .ok _ => .ok (v.map (·.position))
    | .err e => .err e
    | .panic s => .panic s
  | .err e => .err e
  | .panic s => .panic s

/-- Stages 3–5: everything downstream of the space points. -/
def vertexFromPoints (pts : Array (Hough.Point α)) : Outcome Unit (Option (α × α × α)) :=
  (stageClusters P pts).bind fun r =>
  (stageTracks P pts r.clusters).bind fun ts =>
  stageVertex P ts

/-- Stages 2–5: everything downstream of `self.avalanches()`. Bit for bit in the driver (the only
rounding-level difference to the built code is inside stage 1, the Cholesky solve). -/
def vertexFromAvalanches (avs : List (Matching.Avalanche α)) : Outcome Unit (Option (α × α × α)) :=
  (stagePoints P avs).bind (vertexFromPoints P)

/-- **`MainEvent::vertex()`** on the calibrated signals of an event. -/
def vertexOfSignals (ev : Matching.Event α) : Outcome Unit (Option (α × α × α)) :=
  (stageAvalanches P ev).bind fun avs =>
  (stagePoints P avs).bind fun pts =>
  (stageClusters P pts).bind fun r =>
  (stageTracks P pts r.clusters).bind fun ts =>
  stageVertex P ts

/-- The driver evaluates the stages one after the other (to print a digest of the points). -/
theorem vertexOfSignals_eq (ev : Matching.Event α) :
    vertexOfSignals P ev = (stageAvalanches P ev).bind (vertexFromAvalanches P) := rfl

theorem vertexFromAvalanches_eq (avs : List (Matching.Avalanche α)) :
    vertexFromAvalanches P avs = (stagePoints P avs).bind (vertexFromPoints P) := rfl

/-! ### Stage sizes (debugging / evidence) -/

/-- Sizes after each stage: avalanches, space points, clusters, fitted tracks, tracks passing the
two filters of `find_vertices` (candidates for the primary vertex), tracks of the primary vertex
(`0`: no vertex). A stage that panics ends the list. -/
structure Sizes where
  avalanches : Option Nat := none
  points : Option Nat := none
  clusters : Option Nat := none
  clusterSizes : List Nat := []
  tracks : Option Nat := none
  candidates : Option Nat := none
  vertexTracks : Option Nat := none
  panic : Option String := none
deriving Repr

/-- The sizes downstream of a given avalanche list. -/
def stageSizesFrom (avs : List (Matching.Avalanche α)) : Sizes :=
  match stagePoints P avs with
  | .panic s => { avalanches := some avs.length, panic := some s }
  | .err _ => {}
  | .ok pts =>
  match stageClusters P pts with
  | .panic s => { avalanches := some avs.length, points := some pts.size, panic := some s }
  | .err _ => {}
  | .ok r =>
  match stageTracks P pts r.clusters with
  | .panic s =>
    { avalanches := some avs.length, points := some pts.size, clusters := some r.clusters.length,
      clusterSizes := r.clusters.map List.length, panic := some s }
  | .err _ => {}
  | .ok ts =>
    let cand := ((List.range ts.size).filter (vertexCtx P ts).keep).length
    match vertexFitOf P ts with
    | .panic s =>
      { avalanches := some avs.length, points := some pts.size, clusters := some r.clusters.length,
        clusterSizes := r.clusters.map List.length, tracks := some ts.size, candidates := some cand,
        panic := some s }
    | .err _ => {}
    | .ok v =>
      { avalanches := some avs.length, points := some pts.size, clusters := some r.clusters.length,
        clusterSizes := r.clusters.map List.length, tracks := some ts.size, candidates := some cand,
        vertexTracks := some ((v.map (·.cluster.length)).getD 0),
        panic := match remainderOf P ts v with | .panic s => some s | _ => none }

def stageSizes (ev : Matching.Event α) : Sizes :=
  match stageAvalanches P ev with
  | .panic s => { panic := some s }
  | .err _ => {}
  | .ok avs => stageSizesFrom P avs

end AlphaG.VertexPipeline
