import AlphaG.Model.Matching
/-
The whole of `MainEvent::avalanches()` (`physics/src/lib.rs`) as one executable model: the
generic pieces of `Model/Deconv.lean`, `Model/Ranges.lean`, `Model/Matching.lean` with their
parameters filled in the way the Rust code does:

* `a_matrix(n)` (`deconvolution/wires.rs`): the banded symmetric Toeplitz matrix of the
  `NEIGHBOR_FACTORS`, entry `(i, j)` = `NEIGHBOR_FACTORS.get(|i - j|).unwrap_or(0.0)`;
* `cholesky_in_place(a).unwrap()`: a plain `L·Lᵀ` factorisation, one column per step (pivot test
  `real > 0` of `faer` → the `unwrap()` panic site `wires:cholesky-unwrap`), over the carrier's
  `sqrt`;
* `solve_transpose_in_place_with_conj(L, Conj::No, Yᵀ)`: `faer` solves `Aᵀ·X = Yᵀ`, i.e. one
  system `A·x = (row of Y)ᵀ` per time bin (forward substitution with `L`, back substitution with
  `Lᵀ`); `Y'[row][column] = x[column]`: this is the parameter `cholSolve` of
  `Deconv.wireSignalsDeconv`;
* `ls_deconvolution(column of Y', WIRE_RESPONSE, 0..=1, 3..=12)` per wire, `pad_deconvolution`
  per pad (`Deconv.wireSignalsDeconv`, `Deconv.padDeconv`), the response tables being arguments;
* ranges, `wire_inputs`, the `BTreeSet` of pad columns, `match_column_inputs`:
  `Matching.avalanches`.

`faer`'s blocked/recursive kernels evaluate the same formulas in another order (and with fused
multiply-adds); in `f64` the result of the solve agrees with this model to rounding only, in an
exact field it is the same (the factorisation of a positive definite matrix is unique). All the
rest of the chain is bit for bit.

Sharing: the generic definitions recompute `assignments` (the wire deconvolution of the whole
event) for every pad column and `cholSolve` for every matrix entry; `run` below computes each
once; `run_ok`, `avalanchesShared_eq` and `wireSignalsDeconvFast_eq` prove that it is the generic model.
-/
namespace AlphaG.Avalanches
open AlphaG AlphaG.Deconv AlphaG.Ranges AlphaG.Matching

variable {α : Type} (o : Ops α)

/-! ### `a_matrix` -/

/-- `a_matrix(n)` entry `(i, j)` (independent of `n`). -/
def aEntry (factors : List α) (i j : Nat) : α :=
  factors.getD (if i > j then i - j else j - i) o.zero

/-- `a_matrix(n)` as a list of rows. -/
def aTable (factors : List α) (n : Nat) : List (List α) :=
  (List.range n).map fun i => (List.range n).map fun j => aEntry o factors i j

/-- The bit patterns of `NEIGHBOR_FACTORS = [1.0, -0.1275, -0.0365, -0.012, -0.0042]` as `f64`
(the `nfactors` request checks them against the constants of the built code; `Props/C13b.lean`
proves diagonal dominance for their exact rational values). -/
def neighbourFactorBits : List Nat :=
  [0x3ff0000000000000, 0xbfc051eb851eb852, 0xbfa2b020c49ba5e3, 0xbf889374bc6a7efa,
   0xbf713404ea4a8c15]

/-! ### Cholesky `L·Lᵀ`, one column per step (outer-product form) -/

/-- The pivot of a (trailing) matrix: its entry `(0, 0)`. -/
def pivot (m : List (List α)) : α := (m.headD []).headD o.zero

/-- Column 0 below the diagonal (only the lower triangle is read), divided by the root of the
pivot: `L[k+1.., k]`. -/
def colBelow (sqrt : α → α) (m : List (List α)) : List α :=
  m.tail.map fun row => o.div (row.headD o.zero) (sqrt (pivot o m))

/-- The trailing matrix after one step: `m[i+1][j+1] - l[i]·l[j]`. -/
def schur (l : List α) (m : List (List α)) : List (List α) :=
  List.zipWith (fun row li => List.zipWith (fun mij lj => o.sub mij (o.mul li lj)) row.tail l) m.tail l

/-- The factor as the list of its columns `(L[k,k], L[k+1.., k])`; `none` when a pivot fails
`pivot > 0` (`CholeskyError`, which the Rust code `unwrap()`s). `n` is the matrix size. -/
def cholFactor (sqrt : α → α) : Nat → List (List α) → Option (List (α × List α))
  | 0, _ => some []
  | n + 1, m =>
    if o.lt o.zero (pivot o m) then
      match cholFactor sqrt n (schur o (colBelow o sqrt m) m) with
      | some rest => some ((sqrt (pivot o m), colBelow o sqrt m) :: rest)
      | none => none
    else none

/-- Forward substitution `L·z = y`. -/
def fwd : List (α × List α) → List α → List α
  | [], _ => []
  | _ :: _, [] => []
  | (d, col) :: rest, y0 :: ys =>
    o.div y0 d :: fwd rest (List.zipWith (fun y l => o.sub y (o.mul (o.div y0 d) l)) ys col)

/-- `Σ l[i]·x[i]` (from `zero`, left to right). -/
def dot (l x : List α) : α := (List.zipWith o.mul l x).foldl o.add o.zero

/-- Back substitution `Lᵀ·x = z`. -/
def bwd : List (α × List α) → List α → List α
  | [], _ => []
  | _ :: _, [] => []
  | (d, col) :: rest, z0 :: zs => o.div (o.sub z0 (dot o col (bwd rest zs))) d :: bwd rest zs

/-- `A·x = y` through the factor. -/
def solveRow (L : List (α × List α)) (y : List α) : List α := bwd o L (fwd o L y)

/-- The `cholSolve` parameter of `Deconv.wireSignalsDeconv`: `Y·A⁻¹`, row by row. -/
def cholSolve (L : List (α × List α)) : Nat → Nat → (Nat → Nat → α) → (Nat → Nat → α) :=
  fun _ j Y row column => (solveRow o L ((List.range j).map (Y row))).getD column o.zero

/-! ### One block of wires -/

/-- The tables and the square root the Rust code uses. -/
structure Tables (α : Type) where
  wireResp : List α
  padResp : List α
  factors : List α
  sqrt : α → α

/-- `Y'` as a list of rows. -/
def solvedRows (L : List (α × List α)) (signals : List (List α)) : List (List α) :=
  (List.range (maxLen signals)).map fun row =>
    solveRow o L ((List.range signals.length).map (yMatrix o signals row))

/-- One `ls_deconvolution` per column of the row list. -/
def deconvColumns (wireResp : List α) (rows : List (List α)) (j : Nat) :
    Outcome Unit (List (List α)) :=
  sequence ((List.range j).map fun column =>
    wireDeconv o wireResp (rows.map fun r => r.getD column o.zero))

/-- `Deconv.wireSignalsDeconv o (cholSolve o L)` with `Y'` computed once. -/
def wireSignalsDeconvFast (L : List (α × List α)) (wireResp : List α) (signals : List (List α)) :
    Outcome Unit (List (List α)) :=
  if signals.isEmpty then .panic "wires:max-unwrap" else
  deconvColumns o wireResp (solvedRows o L signals) signals.length

theorem wireSignalsDeconvFast_eq (L : List (α × List α)) (wireResp : List α)
    (signals : List (List α)) :
    wireSignalsDeconvFast o L wireResp signals
      = wireSignalsDeconv o (cholSolve o L) wireResp signals := by
  simp [wireSignalsDeconvFast, wireSignalsDeconv, deconvColumns, solvedRows, cholSolve,
    List.map_map, Function.comp_def]

/-- `wire_range_deconvolution` on the signals of one block in ring order: `problem_dimensions`
(`max().unwrap()`), `a_matrix(j)`, `cholesky_in_place(..).unwrap()`, solve, one sweep per wire. -/
def wireBlock (T : Tables α) (signals : List (List α)) : Outcome Unit (List (List α)) :=
  if signals.isEmpty then .panic "wires:max-unwrap" else
  match cholFactor o T.sqrt signals.length (aTable o T.factors signals.length) with
  | none => .panic "wires:cholesky-unwrap"
  | some L => wireSignalsDeconvFast o L T.wireResp signals

theorem wireBlock_eq (T : Tables α) (signals : List (List α)) :
    wireBlock o T signals =
      if signals.isEmpty then .panic "wires:max-unwrap" else
      match cholFactor o T.sqrt signals.length (aTable o T.factors signals.length) with
      | none => .panic "wires:cholesky-unwrap"
      | some L => wireSignalsDeconv o (cholSolve o L) T.wireResp signals := by
  unfold wireBlock
  split
  · rfl
  · split <;> simp [wireSignalsDeconvFast_eq]

/-! ### The whole event -/

/-- The value of a successful outcome (`d` otherwise; `run` reports the panic). -/
def okD {β : Type} (r : Outcome Unit β) (d : β) : β :=
  match r with
  | .ok a => a
  | _ => d

def panicSite {β : Type} : Outcome Unit β → Option String
  | .panic s => some s
  | _ => none

/-- The parameters of `Matching.avalanches` the Rust code uses. -/
def params (T : Tables α) : Params α where
  deconvBlock := fun signals => okD (wireBlock o T signals) []
  padDeconv := fun signal => okD (Deconv.padDeconv o T.padResp signal) []

/-- `wire_range_deconvolution` of every range, in the order of `contiguous_ranges`. -/
def wireOutcomes (T : Tables α) (ev : Event α) :
    List ((Nat × Nat) × Outcome Unit (List (List α))) :=
  (contiguousRanges (occupancy ev)).map fun r =>
    (r, wireBlock o T (blockSignals ev (rangeToIndices nWires r)))

/-- The `(i, input)` assignments from the computed outcomes. -/
def assignmentsOf (wo : List ((Nat × Nat) × Outcome Unit (List (List α)))) : List (Nat × List α) :=
  wo.flatMap fun p => (rangeToIndices nWires p.1).zip (okD p.2 [])

theorem assignmentsOf_eq (T : Tables α) (ev : Event α) :
    assignmentsOf (wireOutcomes o T ev) = assignments (params o T) ev := by
  simp [assignmentsOf, wireOutcomes, assignments, params, List.flatMap_map]

/-- `pad_deconvolution` of every row of one column that has a signal. -/
def padOutcomes (T : Tables α) (ev : Event α) (column : Nat) :
    List (Option (Outcome Unit (List α))) :=
  (List.range nRows).map fun row => (ev.pads column row).map (Deconv.padDeconv o T.padResp)

/-- `pad_inputs_column` from the computed outcomes. -/
def padInputsOf (po : List (Option (Outcome Unit (List α)))) : List (List α) :=
  po.map fun x =>
    match x with
    | some r => okD r []
    | none => []

theorem padInputsOf_eq (T : Tables α) (ev : Event α) (column : Nat) :
    padInputsOf (padOutcomes o T ev column) = padInputs (params o T) ev column := by
  simp only [padInputsOf, padOutcomes, padInputs, params, List.map_map]
  apply List.map_congr_left
  intro row _
  simp only [Function.comp]
  cases ev.pads column row <;> rfl

variable (g : Geo α) (s : Sorter α)

/-- One iteration of `for column in pad_columns`: the first panic of the column's pad
deconvolutions (rows ascending) and the column's avalanches. -/
def columnResult (as : List (Nat × List α)) (column : Nat)
    (po : List (Option (Outcome Unit (List α)))) : Option String × List (Avalanche α) :=
  (po.findSome? (fun x => x.bind panicSite),
   matchColumn o g s (columnWires column) ((columnWires column).map (wireInput as))
     (padInputsOf po))

/-- The second loop of `avalanches` over the computed assignments. -/
def columnResults (T : Tables α) (ev : Event α) (as : List (Nat × List α)) :
    List (Option String × List (Avalanche α)) :=
  (padColumns as).map fun c => columnResult o g s as c (padOutcomes o T ev c)

/-- `Matching.avalanches` with `assignments` computed once (any parameters). -/
def avalanchesShared (P : Params α) (ev : Event α) (as : List (Nat × List α)) :
    List (Avalanche α) :=
  (padColumns as).flatMap fun c =>
    matchColumn o g s (columnWires c) ((columnWires c).map (wireInput as)) (padInputs P ev c)

theorem avalanchesShared_eq (P : Params α) (ev : Event α) :
    avalanchesShared o g s P ev (assignments P ev) = Matching.avalanches o g s P ev := rfl

/-- The second half of `avalanches`, given the wire outcomes. -/
def finish (wo : List ((Nat × Nat) × Outcome Unit (List (List α))))
    (cr : List (Option String × List (Avalanche α))) : Outcome Unit (List (Avalanche α)) :=
  match wo.findSome? (fun p => panicSite p.2) with
  | some site => .panic site
  | none =>
    match cr.findSome? (fun p => p.1) with
    | some site => .panic site
    | none => .ok (cr.flatMap fun p => p.2)

/-- `MainEvent::avalanches()`: every deconvolution is evaluated exactly once; the first panic in
the order of the Rust loops (wire ranges, then pad columns ascending, rows ascending) wins. -/
def runWith (T : Tables α) (ev : Event α)
    (wo : List ((Nat × Nat) × Outcome Unit (List (List α)))) : Outcome Unit (List (Avalanche α)) :=
  finish wo (columnResults o g s T ev (assignmentsOf wo))

def run (T : Tables α) (ev : Event α) : Outcome Unit (List (Avalanche α)) :=
  runWith o g s T ev (wireOutcomes o T ev)

theorem columnResults_flat (T : Tables α) (ev : Event α) :
    (columnResults o g s T ev (assignmentsOf (wireOutcomes o T ev))).flatMap (fun p => p.2)
      = Matching.avalanches o g s (params o T) ev := by
  simp only [columnResults, columnResult, List.flatMap_map, assignmentsOf_eq, padInputsOf_eq,
    Matching.avalanches]

/-- `run` is the generic model `Matching.avalanches` with the parameters `params T`, guarded by
the panic sites of the deconvolutions. -/
theorem run_ok (T : Tables α) (ev : Event α) (r : List (Avalanche α))
    (h : run o g s T ev = .ok r) : r = Matching.avalanches o g s (params o T) ev := by
  unfold run runWith finish at h
  split at h
  · cases h
  · split at h
    · cases h
    · rw [columnResults_flat] at h
      cases h
      rfl

end AlphaG.Avalanches
