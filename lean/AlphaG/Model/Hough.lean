import AlphaG.Model.Cluster
/-
Concrete ingredients of `cluster_spacepoints` (physics/src/reconstruction/track_finding.rs,
physics/src/lib.rs), which `Model/Cluster.lean` leaves abstract:

* `SpacePoint::{x, y, distance}` and the derived `SpacePoint ==`;
* the conformal map `u_v` and `HoughSpaceAccumulator::get_bins`, exactly as written: the first
  `prev_rho_bin` from `u` alone, the loop `theta_bin in 1..=theta_bins`, `rho = u*cos + v*sin`,
  the rule "both rho bins negative → no votes", the range `min.max(0)..=max`, the saturating
  cast `floor() as i32` (an operation of the carrier), and `bin.try_into().unwrap()`
  (`i32 → u32`) as a panic guard;
* the adjacency of `largest_cluster`: `cluster[i].distance(points[j]) <= max_distance`
  (note: `<=`, not `<`);
* `ctxOf`/`clusterX`: the abstract clustering model instantiated with these, points being
  triples of the carrier, so that the whole of `cluster_spacepoints` is computed from the
  points alone.

Written once over a carrier `α` with the operations the Rust code uses and **no laws**
(`Ops α`); `uom` quantities are the identity on the SI base value. `powi(P2)` is `x * x`
(`f64::powi(2)` is one multiplication in both the LLVM lowering and compiler-rt's `__powidf2`;
the correspondence run compares bit patterns). The driver instantiates `α := Float`.
Core Lean only.
-/
namespace AlphaG.Hough
open AlphaG AlphaG.Cluster

/-- The operations of `f64` used by `get_bins`, `SpacePoint::{x,y,distance,==}`.
`ofU32` is `f64::from(u32)`; `floorI32 x` is `x.floor() as i32` (saturating, NaN ↦ 0) — the
theorems of Props/C15b hold for **any** function here, so no range is imposed;
`le`/`beq` are `<=`/`==` (false on NaN); `fullTurn` is `Angle::FULL_TURN` (`2.0 * PI`),
`rhoMax` is `RHO_MAX` (`1.0 / INNER_CATHODE_RADIUS`). -/
structure Ops (α : Type) where
  add : α → α → α
  sub : α → α → α
  mul : α → α → α
  div : α → α → α
  sqrt : α → α
  sin : α → α
  cos : α → α
  ofU32 : Nat → α
  floorI32 : α → Int
  le : α → α → Bool
  beq : α → α → Bool
  fullTurn : α
  rhoMax : α

/-- `SpacePoint { r, phi, z }`. -/
structure Point (α : Type) where
  r : α
  phi : α
  z : α

variable {α : Type} (o : Ops α)

/-! ### `SpacePoint` -/

/-- `SpacePoint::x`: `self.r * self.phi.cos()`. -/
def px (p : Point α) : α := o.mul p.r (o.cos p.phi)
/-- `SpacePoint::y`: `self.r * self.phi.sin()`. -/
def py (p : Point α) : α := o.mul p.r (o.sin p.phi)

/-- Cartesian triple `(x(), y(), z)`. -/
def xyz (p : Point α) : α × α × α := (px o p, py o p, p.z)

/-- `d.powi(2)`. -/
def sq (d : α) : α := o.mul d d

/-- `((ax-bx)² + (ay-by)² + (az-bz)²).sqrt()` (left-associated sum, as written). -/
def dist3 (a b : α × α × α) : α :=
  o.sqrt (o.add (o.add (sq o (o.sub a.1 b.1)) (sq o (o.sub a.2.1 b.2.1)))
    (sq o (o.sub a.2.2 b.2.2)))

/-- `SpacePoint::distance`. -/
def distance (p q : Point α) : α := dist3 o (xyz o p) (xyz o q)

/-- The adjacency of `largest_cluster`: `p.distance(q) <= max_distance`. -/
def near (maxDistance : α) (p q : Point α) : Bool := o.le (distance o p q) maxDistance

/-- Derived `PartialEq`: field by field, in declaration order. -/
def pointBeq (p q : Point α) : Bool := o.beq p.r q.r && o.beq p.phi q.phi && o.beq p.z q.z

/-! ### `u_v`, `get_bins` -/

/-- `u_v`: `(x / r², y / r²)`. -/
def uv (p : Point α) : α × α :=
  (o.div (px o p) (o.mul p.r p.r), o.div (py o p) (o.mul p.r p.r))

/-- `Angle::FULL_TURN / f64::from(self.theta_bins)`. -/
def deltaTheta (thetaBins : Nat) : α := o.div o.fullTurn (o.ofU32 thetaBins)
/-- `RHO_MAX / f64::from(self.rho_bins)`. -/
def deltaRho (rhoBins : Nat) : α := o.div o.rhoMax (o.ofU32 rhoBins)

/-- The initial `prev_rho_bin`: `(u / delta_rho).floor() as i32`. -/
def rhoBin0 (p : Point α) (rhoBins : Nat) : Int :=
  o.floorI32 (o.div (uv o p).1 (deltaRho o rhoBins))

/-- `rho_bin` of the iteration `theta_bin = k`:
`theta = f64::from(k) * delta_theta; rho = u * cos + v * sin; (rho / delta_rho).floor() as i32`. -/
def rhoBinAt (p : Point α) (rhoBins thetaBins : Nat) (k : Nat) : Int :=
  o.floorI32 (o.div
    (o.add (o.mul (uv o p).1 (o.cos (o.mul (o.ofU32 k) (deltaTheta o thetaBins))))
           (o.mul (uv o p).2 (o.sin (o.mul (o.ofU32 k) (deltaTheta o thetaBins)))))
    (deltaRho o rhoBins))

/-- The `i32` range `lo..=hi` (empty when `hi < lo`). -/
def rangeIncl (lo hi : Int) : List Int :=
  (List.range (hi + 1 - lo).toNat).map (fun (i : Nat) => lo + (i : Int))

/-- `for bin in … { bins.push((theta_bin - 1, bin.try_into().unwrap())) }`: `i32 → u32`
fails exactly on negative values. -/
def pushBins (t : Nat) : List Int → Outcome Unit (List (Nat × Nat))
  | [] => .ok []
  | b :: bs =>
    if b < 0 then .panic "get_bins:try_into"
    else
      match pushBins t bs with
      | .ok l => .ok ((t, b.toNat) :: l)
      | .err e => .err e
      | .panic s => .panic s

/-- Body of one iteration with `t = theta_bin - 1`:
`if !rho_bin.is_negative() || !prev_rho_bin.is_negative() { for bin in
min_bin.max(0)..=max_bin { push } }`. -/
def stepBins (t : Nat) (prev cur : Int) : Outcome Unit (List (Nat × Nat)) :=
  if !(decide (cur < 0)) || !(decide (prev < 0)) then
    pushBins t (rangeIncl (max (min prev cur) 0) (max prev cur))
  else .ok []

/-- `for theta_bin in k..=…` with `n` iterations left; `rb k` is the `rho_bin` computed in
iteration `theta_bin = k`. -/
def loopBins (rb : Nat → Int) : Nat → Nat → Int → Outcome Unit (List (Nat × Nat))
  | 0, _, _ => .ok []
  | n + 1, k, prev =>
    match stepBins (k - 1) prev (rb k) with
    | .ok l =>
      match loopBins rb n (k + 1) (rb k) with
      | .ok l' => .ok (l ++ l')
      | .err e => .err e
      | .panic s => .panic s
    | .err e => .err e
    | .panic s => .panic s

/-- `get_bins` as a function of the sequence of rho bins alone. -/
def getBinsSeq (rb0 : Int) (rb : Nat → Int) (thetaBins : Nat) : Outcome Unit (List (Nat × Nat)) :=
  loopBins rb thetaBins 1 rb0

/-- `HoughSpaceAccumulator::get_bins(point)`: the bins `(theta, rho)` in the order pushed. -/
def getBins (p : Point α) (rhoBins thetaBins : Nat) : Outcome Unit (List (Nat × Nat)) :=
  getBinsSeq (rhoBin0 o p rhoBins) (rhoBinAt o p rhoBins thetaBins) thetaBins

/-! ### The concrete clustering context -/

/-- `rho_bins`, `theta_bins`, `max_distance` of `cluster_spacepoints`. -/
structure Params (α : Type) where
  rhoBins : Nat
  thetaBins : Nat
  maxDistance : α

/-- A bin `(theta, rho)` as one number; injective on bins with `theta < theta_bins`
(`getBins_bounds`), which is all an `IndexMap` key is used for. -/
def binCode (thetaBins : Nat) (b : Nat × Nat) : Nat := b.1 + thetaBins * b.2

/-- The bin codes of a point, in `get_bins` order (`[]` stands for the panic, which
`clusterX` guards and `getBins_no_panic` excludes). -/
def binCodes (prm : Params α) (p : Point α) : List Nat :=
  match getBins o p prm.rhoBins prm.thetaBins with
  | .ok l => l.map (binCode prm.thetaBins)
  | _ => []

/-- The abstract context of `Model/Cluster.lean` for the points `pts` (indices into `pts`):
`eq` is `SpacePoint ==`, `bins` is `get_bins` (codes renamed by `ren`; the driver ranks them by
first appearance, the theorems hold for every `ren` injective on each point's codes), `near`
is `distance <= max_distance`. Bins and Cartesian coordinates are tabulated once. -/
def ctxOf (ren : Nat → Nat) (prm : Params α) (pts : Array (Point α)) : Ctx :=
  let table : Array (List Nat) := pts.map (fun p => (binCodes o prm p).map ren)
  let pos : Array (α × α × α) := pts.map (xyz o)
  { eq := fun i j =>
      match pts[i]?, pts[j]? with
      | some p, some q => pointBeq o p q
      | _, _ => i == j
    bins := fun i => table.getD i []
    near := fun i j =>
      match pos[i]?, pos[j]? with
      | some a, some b => o.le (dist3 o a b) prm.maxDistance
      | _, _ => false }

/-- `cluster_spacepoints(sp, min, rho_bins, theta_bins, max_distance)` from the points alone;
clusters and remainder are lists of indices into `pts`. The first guard is the
`try_into().unwrap()` of `get_bins` (called for every point by `accumulator.add`). -/
def clusterX (ren : Nat → Nat) (prm : Params α) (min : Nat) (pts : Array (Point α)) :
    Outcome Unit Result :=
  if pts.any (fun p => !(getBins o p prm.rhoBins prm.thetaBins).isOk) then
    .panic "get_bins:try_into"
  else cluster (ctxOf o ren prm pts) min (List.range pts.size)

end AlphaG.Hough
