import AlphaG.Model.Chunk
import AlphaG.Model.PwbChunks
/-
Adapter between the byte-level chunk decoder (C03, `AlphaG.Chunk`) and the reassembly model
(C04, `AlphaG.Pwb`): what `PwbV2Packet::try_from(Vec<Chunk>)` sees of a decoded `Chunk`.
-/
namespace AlphaG

def toChunkV (c : Chunk.Chunk) : Pwb.ChunkV :=
  { deviceId := c.deviceId, chip := c.channelId, flags := c.flags, chunkId := c.chunkId,
    payload := c.payload }

/-- Decode every bank with `Chunk::try_from`; the first failure (in order) is returned. -/
def decodeAll : List (List UInt8) → Outcome Chunk.Err (List Pwb.ChunkV)
  | [] => .ok []
  | b :: bs =>
    match Chunk.decodeChunk b with
    | .ok c =>
      match decodeAll bs with
      | .ok cs => .ok (toChunkV c :: cs)
      | .err e => .err e
      | .panic s => .panic s
    | .err e => .err e
    | .panic s => .panic s

/-- `PwbPacket::try_from(chunks)` on chunk *byte strings*: decode each bank, then reassemble. -/
def pwbFromChunkBytes (banks : List (List UInt8)) :
    Outcome (Chunk.Err ⊕ Pwb.CErr) Pwb.PwbPacket :=
  match decodeAll banks with
  | .panic s => .panic s
  | .err e => .err (.inl e)
  | .ok cs =>
    match Pwb.reassemble cs with
    | .ok p => .ok p
    | .err e => .err (.inr e)
    | .panic s => .panic s

end AlphaG
