import AlphaG.Model.Basic
import AlphaG.Generated.Boards
/-
Model of `PwbV2Packet::try_from(&[u8])`, `PwbV2Packet::waveform_at`,
`padwing::ChannelId::try_from(u16)` (and the Reset/Fpn/Pad conversions it calls) and
`suppression_baseline` (detector/src/padwing.rs), transcribed check by check in the order of
the Rust code. Every slice index, `unwrap()` and unsigned subtraction is a `need`/`needBytes`
guard. The specification `PwbWellFormed` lives in Props/C05.lean and is phrased on the
documented layout, not on this decoder.
-/
namespace AlphaG.Pwb

/-! ### Channel ids -/

/-- `padwing::ChannelId`; the payload is the *channel index* (1..3, 1..4, 1..72), not the
readout index. -/
inductive ChannelId where
  | reset (n : Nat)
  | fpn (n : Nat)
  | pad (n : Nat)
deriving Repr, DecidableEq

/-- `ResetChannelId::try_from(u16)`. -/
def resetId? (n : Nat) : Option Nat := if 1 ≤ n ∧ n ≤ 3 then some n else none
/-- `FpnChannelId::try_from(u16)`. -/
def fpnId? (n : Nat) : Option Nat := if 1 ≤ n ∧ n ≤ 4 then some n else none
/-- `PadChannelId::try_from(u16)`. -/
def padId? (n : Nat) : Option Nat := if 1 ≤ n ∧ n ≤ 72 then some n else none

/-- The amount subtracted from the readout index in the pad arm of `ChannelId::try_from`:
`(i > 16) + (i > 29) + (i > 54) + (i > 67) + 3`. -/
def padGap (i : Nat) : Nat :=
  (if i > 16 then 1 else 0) + (if i > 29 then 1 else 0) + (if i > 54 then 1 else 0)
    + (if i > 67 then 1 else 0) + 3

/-- The `u16` subtraction chain `i - (i>16) - (i>29) - (i>54) - (i>67) - 3` of the pad arm
underflows (a panic with overflow checks, a wrap without). Every partial difference is at
least the final one, so the chain underflows iff the total exceeds `i`. Only evaluated in the
`4..=79` arm after the four FPN literals. -/
def readoutUnderflows (i : Nat) : Bool :=
  decide (4 ≤ i ∧ i ≤ 79 ∧ i ≠ 16 ∧ i ≠ 29 ∧ i ≠ 54 ∧ i ≠ 67 ∧ i < padGap i)

/-- `ChannelId::try_from(readout_index: u16)` (`none` = `Err(TryChannelIdFromUnsignedError)`).
Match arms in source order. -/
def readoutToChannel (i : Nat) : Option ChannelId :=
  if 1 ≤ i ∧ i ≤ 3 then (resetId? i).map .reset
  else if i = 16 then (fpnId? 1).map .fpn
  else if i = 29 then (fpnId? 2).map .fpn
  else if i = 54 then (fpnId? 3).map .fpn
  else if i = 67 then (fpnId? 4).map .fpn
  else if 4 ≤ i ∧ i ≤ 79 then
    (padId? (i - (if i > 16 then 1 else 0) - (if i > 29 then 1 else 0) - (if i > 54 then 1 else 0)
      - (if i > 67 then 1 else 0) - 3)).map .pad
  else none

/-- Inverse direction (documentation: reset 1..3, FPN at 16/29/54/67, pads fill the rest in
order). Used by the encoder only. -/
def channelToReadout : ChannelId → Nat
  | .reset n => n
  | .fpn n => if n = 1 then 16 else if n = 2 then 29 else if n = 3 then 54 else 67
  | .pad n => n + 3 + (if n > 12 then 1 else 0) + (if n > 24 then 1 else 0)
      + (if n > 48 then 1 else 0) + (if n > 60 then 1 else 0)

/-! ### Packet -/

inductive Err where
  | incompleteSlice | unknownVersion | unknownAfterId | unknownCompression | unknownTrigger
  | unknownMac | zeroMismatch | badLastScaCell | badScaSamples | badScaChannelsSent
  | badScaChannelsThreshold | unknownChannelId | channelIdMismatch | numberOfSamplesMismatch
  | badEndOfDataMarker
deriving Repr, DecidableEq

structure PwbPacket where
  /-- `AfterId` A..D as 0..3 -/
  afterId : Nat
  /-- `Compression` as its wire value (only `Raw` = 0 exists) -/
  compression : Nat
  /-- `Trigger` as its wire value: External 0, Manual 1, InternalPulse 3 -/
  triggerSource : Nat
  /-- `BoardId { name, mac_address, device_id }`: the table triplet found for the MAC -/
  boardName : String
  mac : List Nat
  deviceId : Nat
  triggerDelay : Nat
  triggerTimestamp : Nat
  lastScaCell : Nat
  requestedSamples : Nat
  channelsSent : List ChannelId
  channelsOverThreshold : List ChannelId
  eventCounter : Nat
  fifoMaxDepth : Nat
  eventDescriptorWriteDepth : Nat
  eventDescriptorReadDepth : Nat
  /-- the whole data section (headers, samples, padding, end marker) as `i16` -/
  data : List Int
deriving Repr, DecidableEq

/-- `BoardId::try_from([u8; 6])`: first triplet of `PADWING_BOARDS` with that MAC. -/
def boardOfMac (m : List Nat) : Option (String × List Nat × Nat) :=
  AlphaG.Generated.padwingBoards.find? (fun t => t.2.1 == m)

/-- `BoardId::try_from(u32)`: first triplet of `PADWING_BOARDS` with that device id. -/
def boardOfDevice (d : Nat) : Option (String × List Nat × Nat) :=
  AlphaG.Generated.padwingBoards.find? (fun t => t.2.2 == d)

def macOf (b : List UInt8) : List Nat :=
  [byteAt b 4, byteAt b 5, byteAt b 6, byteAt b 7, byteAt b 8, byteAt b 9]

/-- The loop
`while num != 0 { bit = num.leading_zeros(); v.push(127 - bit); num ^= 1 << (127 - bit) }`
on a `u128` (`127 - leading_zeros = log2` for `num ≠ 0`); returns the pushed values in push
order. `fuel` bounds the number of iterations; `maskLoop_eq` (Lemmas/PwbMask.lean) shows 128
is enough for every `u128` (each iteration clears the top set bit), i.e. the loop terminates. -/
def maskLoop : Nat → Nat → List Nat
  | 0, _ => []
  | fuel + 1, num =>
    if num = 0 then [] else Nat.log2 num :: maskLoop fuel (num ^^^ (1 <<< Nat.log2 num))

/-- `u128::from_le_bytes(array)` with `array[..10] = slice[24..34]`, the rest zero. -/
def sentMask (b : List UInt8) : Nat := leAt b 24 10
def thrMask (b : List UInt8) : Nat := leAt b 34 10

/-- `channels_sent.into_iter().rev()`: zero-based mask bit numbers, ascending. -/
def sentIdx (b : List UInt8) : List Nat := (maskLoop 128 (sentMask b)).reverse
def thrIdx (b : List UInt8) : List Nat := (maskLoop 128 (thrMask b)).reverse

/-- `(127 - bit).try_into().unwrap()` into `u16`, `index + 1` in `u16`, and
`ChannelId::try_from(index + 1).unwrap()` all succeed for mask bit `i`. -/
def idxOk (i : Nat) : Bool :=
  decide (i < 65536) && decide (i + 1 < 65536) && !readoutUnderflows (i + 1)
    && (readoutToChannel (i + 1)).isSome

/-- `.map(|index| ChannelId::try_from(index + 1).unwrap())` (after `idxOk` holds for all). -/
def chansOf (idx : List Nat) : List ChannelId := idx.filterMap (fun i => readoutToChannel (i + 1))

def requested (b : List UInt8) : Nat := leAt b 22 2

/-- `bytes_per_channel`. -/
def bpc (req : Nat) : Nat := if req % 2 = 0 then 4 + 2 * req else 4 + 2 * req + 2

/-- The `for (index, &channel) in channels_sent.iter().enumerate()` loop in continuation style:
`k` is the enumeration index, block `k` starts at byte `52 + bpc * k` of the slice
(`data = &slice[52..]`, `index = bytes_per_channel * k`). -/
def checkBlocks {α : Type} (b : List UInt8) (req : Nat) :
    List ChannelId → Nat → Outcome Err α → Outcome Err α
  | [], _, rest => rest
  | c :: cs, k, rest =>
    needBytes "pwb:data[index..][..2]" b (52 + bpc req * k) 2 <|
    need "ChannelId::try_from:sub" (!readoutUnderflows (leAt b (52 + bpc req * k) 2)) <|
    if readoutToChannel (leAt b (52 + bpc req * k) 2) = none then .err .unknownChannelId else
    if readoutToChannel (leAt b (52 + bpc req * k) 2) ≠ some c then .err .channelIdMismatch else
    needBytes "pwb:data[index+2..][..2]" b (52 + bpc req * k + 2) 2 <|
    if leAt b (52 + bpc req * k + 2) 2 ≠ req then .err .numberOfSamplesMismatch else
    need "pwb:data[index+4+2*req..][..2]"
      (decide (req % 2 = 0 ∨ 52 + bpc req * k + 4 + 2 * req + 2 ≤ b.length)) <|
    if req % 2 ≠ 0 ∧ leAt b (52 + bpc req * k + 4 + 2 * req) 2 ≠ 0 then .err .zeroMismatch else
    checkBlocks b req cs (k + 1) rest

/-- `data.chunks_exact(2).map(i16::from_le_bytes)`. -/
def i16s : List UInt8 → List Int
  | lo :: hi :: rest => toSigned 16 (lo.toNat + 256 * hi.toNat) :: i16s rest
  | _ => []

def decodePwb (b : List UInt8) : Outcome Err PwbPacket :=
  if b.length < 56 then .err .incompleteSlice else
  needBytes "pwb:slice[0]" b 0 1 <|
  if byteAt b 0 ≠ 2 then .err .unknownVersion else
  needBytes "pwb:slice[1]" b 1 1 <|
  if ¬(65 ≤ byteAt b 1 ∧ byteAt b 1 ≤ 68) then .err .unknownAfterId else
  needBytes "pwb:slice[2]" b 2 1 <|
  if byteAt b 2 ≠ 0 then .err .unknownCompression else
  needBytes "pwb:slice[3]" b 3 1 <|
  if ¬(byteAt b 3 = 0 ∨ byteAt b 3 = 1 ∨ byteAt b 3 = 3) then .err .unknownTrigger else
  needBytes "pwb:slice[4..10]" b 4 6 <|
  if boardOfMac (macOf b) = none then .err .unknownMac else
  needBytes "pwb:slice[10..12]" b 10 2 <|
  needBytes "pwb:slice[18..20]" b 18 2 <|
  if leAt b 18 2 ≠ 0 then .err .zeroMismatch else
  needBytes "pwb:slice[12..20]" b 12 8 <|
  needBytes "pwb:slice[20..22]" b 20 2 <|
  if leAt b 20 2 > 511 then .err .badLastScaCell else
  needBytes "pwb:slice[22..24]" b 22 2 <|
  if requested b > 511 then .err .badScaSamples else
  needBytes "pwb:slice[33]" b 33 1 <|
  if byteAt b 33 &&& 128 ≠ 0 then .err .badScaChannelsSent else
  needBytes "pwb:slice[24..34]" b 24 10 <|
  need "pwb:sent ChannelId::try_from(index+1).unwrap()" ((sentIdx b).all idxOk) <|
  needBytes "pwb:slice[43]" b 43 1 <|
  if byteAt b 43 &&& 128 ≠ 0 then .err .badScaChannelsThreshold else
  needBytes "pwb:slice[34..44]" b 34 10 <|
  need "pwb:threshold ChannelId::try_from(index+1).unwrap()" ((thrIdx b).all idxOk) <|
  needBytes "pwb:slice[44..48]" b 44 4 <|
  needBytes "pwb:slice[48..50]" b 48 2 <|
  needBytes "pwb:slice[50]" b 50 1 <|
  needBytes "pwb:slice[51]" b 51 1 <|
  needBytes "pwb:slice[52..]" b 52 0 <|
  -- usize arithmetic `bytes_per_channel * channels_sent.len() + 4` must not overflow
  need "pwb:usize bpc*n+4"
    (decide (bpc (requested b) * (chansOf (sentIdx b)).length + 4 < 2 ^ 64)) <|
  if bpc (requested b) * (chansOf (sentIdx b)).length + 4 ≠ b.length - 52 then
    .err .incompleteSlice else
  checkBlocks b (requested b) (chansOf (sentIdx b)) 0 <|
  need "pwb:data.len()-4" (decide (4 ≤ b.length - 52)) <|
  if leAt b (b.length - 4) 4 ≠ 0xCCCCCCCC then .err .badEndOfDataMarker else
  .ok { afterId := byteAt b 1 - 65, compression := byteAt b 2, triggerSource := byteAt b 3,
        boardName := ((boardOfMac (macOf b)).getD ("", [], 0)).1,
        mac := ((boardOfMac (macOf b)).getD ("", [], 0)).2.1,
        deviceId := ((boardOfMac (macOf b)).getD ("", [], 0)).2.2,
        triggerDelay := leAt b 10 2, triggerTimestamp := leAt b 12 8,
        lastScaCell := leAt b 20 2, requestedSamples := requested b,
        channelsSent := chansOf (sentIdx b), channelsOverThreshold := chansOf (thrIdx b),
        eventCounter := leAt b 44 4, fifoMaxDepth := leAt b 48 2,
        eventDescriptorWriteDepth := byteAt b 50, eventDescriptorReadDepth := byteAt b 51,
        data := i16s (b.drop 52) }

/-! ### `waveform_at` -/

/-- `channels_sent.iter().position(|c| *c == channel)`. -/
def position? (c : ChannelId) : List ChannelId → Option Nat
  | [] => none
  | x :: xs => if x = c then some 0 else (position? c xs).map (· + 1)

/-- `samples_per_channel` of `waveform_at`. -/
def spc (req : Nat) : Nat := if req % 2 = 0 then 2 + req else 2 + req + 1

/-- `PwbV2Packet::waveform_at`: `Some(&self.data[index + 2..][..self.requested_samples])`
with both slice operations as panic guards. -/
def waveformAt (p : PwbPacket) (c : ChannelId) : Outcome Err (Option (List Int)) :=
  if position? c p.channelsSent = none then .ok none else
  need "waveform_at:data[index+2..]"
    (decide (spc p.requestedSamples * (position? c p.channelsSent).getD 0 + 2 ≤ p.data.length)) <|
  need "waveform_at:[..requested_samples]"
    (decide (p.requestedSamples
      ≤ p.data.length - (spc p.requestedSamples * (position? c p.channelsSent).getD 0 + 2))) <|
  .ok (some ((p.data.drop (spc p.requestedSamples * (position? c p.channelsSent).getD 0 + 2)).take
    p.requestedSamples))

/-! ### Encoder (documentation layout), from the accessors only -/

def waveBytes (w : List Int) : List UInt8 := w.flatMap (fun x => leBytes (ofSigned 16 x) 2)

/-- One channel block: readout index, sample count, samples, zero padding to a 4-byte
multiple. -/
def encodeBlock (p : PwbPacket) (c : ChannelId) : List UInt8 :=
  leBytes (channelToReadout c) 2 ++ leBytes p.requestedSamples 2
    ++ (match waveformAt p c with
        | .ok (some w) => waveBytes w
        | _ => [])
    ++ (if p.requestedSamples % 2 = 0 then [] else [0, 0])

/-- The 80-bit mask with bit `readout index - 1` set for every listed channel. -/
def maskOf (cs : List ChannelId) : Nat := (cs.map (fun c => 2 ^ (channelToReadout c - 1))).sum

def encodePwb (p : PwbPacket) : List UInt8 :=
  [2, UInt8.ofNat (65 + p.afterId), UInt8.ofNat p.compression, UInt8.ofNat p.triggerSource]
    ++ p.mac.map UInt8.ofNat
    ++ leBytes p.triggerDelay 2
    ++ leBytes p.triggerTimestamp 6
    ++ [0, 0]
    ++ leBytes p.lastScaCell 2
    ++ leBytes p.requestedSamples 2
    ++ leBytes (maskOf p.channelsSent) 10
    ++ leBytes (maskOf p.channelsOverThreshold) 10
    ++ leBytes p.eventCounter 4
    ++ leBytes p.fifoMaxDepth 2
    ++ [UInt8.ofNat p.eventDescriptorWriteDepth, UInt8.ofNat p.eventDescriptorReadDepth]
    ++ p.channelsSent.flatMap (encodeBlock p)
    ++ [0xCC, 0xCC, 0xCC, 0xCC]

/-! ### `suppression_baseline` -/

inductive BaselineErr where
  | shortSlice
deriving Repr, DecidableEq

/-- `suppression_baseline(_run, waveform)`: mean of samples 4..68 with `i32` accumulation,
division truncating toward zero, then `i16::try_from(..).unwrap()`. -/
def suppressionBaseline (w : List Int) : Outcome BaselineErr (Option Int) :=
  if w.length < 68 then .err .shortSlice else
  need "baseline:waveform[4..]" (decide (4 ≤ w.length)) <|
  need "baseline:[..64]" (decide (64 ≤ w.length - 4)) <|
  need "baseline:i32 sum"
    (decide (-(2 ^ 31 : Int) ≤ ((w.drop 4).take 64).sum ∧ ((w.drop 4).take 64).sum < 2 ^ 31)) <|
  need "baseline:i16::try_from.unwrap"
    (decide (-(2 ^ 15 : Int) ≤ Int.tdiv ((w.drop 4).take 64).sum 64
      ∧ Int.tdiv ((w.drop 4).take 64).sum 64 < 2 ^ 15)) <|
  .ok (some (Int.tdiv ((w.drop 4).take 64).sum 64))

end AlphaG.Pwb
