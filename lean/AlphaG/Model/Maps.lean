import AlphaG.Model.Basic
import AlphaG.Generated.Boards
import AlphaG.Generated.Maps
import AlphaG.Generated.CalArms
/-
Model of the detector maps (C08):

* `TpcWirePosition::try_new`            (detector/src/alpha16/aw_map.rs)    → `wirePosition`
* `TpcPwbPosition::try_new`             (detector/src/padwing/map.rs)       → `pwbPosition`
* the `INV_PADS_0` construction, `PwbPadPosition::try_new`                  → `padInPwb`
* `TpcPadPosition::try_new` / `::new`                                       → `padPosition`
* `wire_to_pad_column`, `pad_column_to_wires` (physics/src/matching.rs)     → `wireToPadColumn`, `padColumnToWires`
* the run-number dispatch of the six calibration lookups                    → `calDispatch`

Every table, every threshold and the order of the `match run_number` arms come from
`AlphaG.Generated.*` (regenerated from the source text on every run); nothing is copied by hand.
Boards are identified by their row index in `ALPHA16BOARDS` / `PADWING_BOARDS` (a Rust `BoardId`
can only be made by a successful lookup in those tables, so it *is* a row). Core Lean only.
-/
namespace AlphaG.Maps
open AlphaG.Generated

/-! ### `match run_number` -/

/-- Does the pattern match the (u32) run number? -/
def patMatches : RunPat → Nat → Bool
  | .max, run => run == 4294967295
  | .ge n, run => decide (n ≤ run)
  | .wild, _ => true

/-- First arm that matches, as in Rust (`none`: no arm matches — rustc rejects such a match, the
theorems show it does not happen for the generated arms). -/
def dispatch : Arms → Nat → Option ArmRhs
  | [], _ => none
  | (p, r) :: rest, run => if patMatches p run then some r else dispatch rest run

/-- Index of the first arm that matches. -/
def dispatchIdx : Arms → Nat → Option Nat
  | [], _ => none
  | (p, _) :: rest, run => if patMatches p run then some 0 else (dispatchIdx rest run).map (· + 1)

/-! ### Board tables -/

/-- `alpha16::BoardId::try_from(&str)`: the first row with that name. -/
def a16BoardIdx (name : String) : Option Nat := alpha16Boards.findIdx? (fun r => r.1 == name)

/-- `padwing::BoardId::try_from(&str)`: the first row with that name. -/
def pwbBoardIdx (name : String) : Option Nat := padwingBoards.findIdx? (fun r => r.1 == name)

def a16BoardName (i : Nat) : String := (alpha16Boards.getD i ("?", [])).1
def pwbBoardName (i : Nat) : String := (padwingBoards.getD i ("?", [], 0)).1

/-! ### Anode wires -/

/-- `PREAMPS_MAP_*.get(&board_id)`: the hash map is filled row by row, so the *last* row whose
name resolves to the board wins. -/
def preampLookup (rows : List (String × Nat × Nat)) (board : Nat) : Option (Nat × Nat) :=
  (rows.reverse.find? (fun r => a16BoardIdx r.1 == some board)).map (fun r => r.2)

/-- `preamps_map(..)` unwraps `BoardId::try_from(name)` for every row (lazy static initialiser). -/
def preampRowsResolve (rows : List (String × Nat × Nat)) : Bool :=
  rows.all (fun r => (a16BoardIdx r.1).isSome)

def firstPreamp (rows : List (String × Nat × Nat)) (board : Nat) : Nat :=
  ((preampLookup rows board).getD (0, 0)).1
def secondPreamp (rows : List (String × Nat × Nat)) (board : Nat) : Nat :=
  ((preampLookup rows board).getD (0, 0)).2

/-- The part of `TpcWirePosition::try_new` after the two maps are chosen. -/
def wireCore (rows : List (String × Nat × Nat)) (chans : List Nat) (board ch : Nat) :
    Outcome String Nat :=
  need "aw_map:preamps_map-unwrap" (preampRowsResolve rows) <|
  if (preampLookup rows board).isNone then .err "BoardIdNotFound" else
  -- `channel_map[usize::from(channel_id.0)]`
  need "aw_map:channel_map-index" (decide (ch < chans.length)) <|
  -- `_ => unreachable!()`
  need "aw_map:unreachable" (decide (chans.getD ch 0 ≤ 31)) <|
  .ok (if chans.getD ch 0 ≤ 15 then firstPreamp rows board * 16 + chans.getD ch 0
       else secondPreamp rows board * 16 + (chans.getD ch 0 - 16))

/-- Selection of a table by an arm (`none`: the translator would have failed). -/
def armTable {α : Type} (tables : List (String × α)) (i : Nat) : Option α :=
  (tables[i]?).map (fun t => t.2)

/-- `TpcWirePosition::try_new(run_number, board_id, channel_id)`; the wire index. Order as in
the code: preamp map arm, channel map arm, then the lookups. -/
def wirePosition (run board ch : Nat) : Outcome String Nat :=
  match dispatch wirePreampArms run with
  | some (.err v) => .err v
  | some (.table i) =>
    match dispatch wireChannelArms run with
    | some (.err v) => .err v
    | some (.table j) =>
      match armTable preampTables i, armTable channelTables j with
      | some rows, some chans => wireCore rows chans board ch
      | _, _ => .panic "model:missing-table"
    | _ => .panic "model:bad-arm"
  | _ => .panic "model:bad-arm"

/-! ### PadWing boards -/

/-- Row-major … rather *column-major* flattening `table[column][row]`, the iteration order of
`inverse_pwb_map`. -/
def pwbFlat (t : List (List String)) : List String := t.flatten

/-- `inverse_pwb_map(..)` unwraps `BoardId::try_from(name)` for every cell. -/
def pwbCellsResolve (t : List (List String)) : Bool :=
  (pwbFlat t).all (fun n => (pwbBoardIdx n).isSome)

/-- `(column, row)` of every cell in insertion order. -/
def pwbCells (t : List (List String)) : List (String × Nat × Nat) :=
  (t.zipIdx.map (fun (col : List String × Nat) => col.1.zipIdx.map (fun (cell : String × Nat) => (cell.1, col.2, cell.2)))).flatten

/-- `INV_PADWING_BOARDS_*.get(&board_id)`: last inserted cell whose name resolves to the board. -/
def pwbLookup (t : List (List String)) (board : Nat) : Option (Nat × Nat) :=
  ((pwbCells t).reverse.find? (fun c => pwbBoardIdx c.1 == some board)).map (fun c => c.2)

/-- The part of `TpcPwbPosition::try_new` after the map is chosen. -/
def pwbCore (t : List (List String)) (board : Nat) : Outcome String (Nat × Nat) :=
  need "map:inverse_pwb_map-unwrap" (pwbCellsResolve t) <|
  -- `TpcPwbColumn::try_from(column).unwrap()`, `TpcPwbRow::try_from(row).unwrap()`
  need "map:inverse_pwb_map-position-unwrap"
    (decide (t.length ≤ tpcPwbColumns) && t.all (fun col => decide (col.length ≤ tpcPwbRows))) <|
  if (pwbLookup t board).isNone then .err "BoardIdNotFound" else
  .ok ((pwbLookup t board).getD (0, 0))

/-- `TpcPwbPosition::try_new(run_number, board_id)` → (column, row). -/
def pwbPosition (run board : Nat) : Outcome String (Nat × Nat) :=
  match dispatch pwbArms run with
  | some (.err v) => .err v
  | some (.table i) =>
    match armTable pwbTables i with
    | some t => pwbCore t board
    | none => .panic "model:missing-table"
  | _ => .panic "model:bad-arm"

/-! ### Pads within a PadWing board (`INV_PADS_0`) -/

/-- `offset = (after % 2) * 36` (u8). -/
def padOffset (after : Nat) : Nat := (after % padOffsetMod) * padOffsetMul

/-- First arm of `match channel` whose range contains the channel. -/
def padArm (ch : Nat) : Option (Nat × Nat × Nat × Bool × Nat) :=
  padArms.find? (fun a => decide (a.1 ≤ ch) && decide (ch ≤ a.2.1))

def padArmCol (ch : Nat) : Nat := ((padArm ch).getD (0, 0, 0, false, 0)).2.2.1
def padArmKMinus (ch : Nat) : Bool := ((padArm ch).getD (0, 0, 0, false, 0)).2.2.2.1
def padArmK (ch : Nat) : Nat := ((padArm ch).getD (0, 0, 0, false, 0)).2.2.2.2

/-- `row` before the flip: `channel - k + offset` or `k - channel + offset`. -/
def padRow0 (after ch : Nat) : Nat :=
  if padArmKMinus ch then padArmK ch - ch + padOffset after else ch - padArmK ch + padOffset after

/-- The entry `(after, channel) ↦ (column, row)` that the `INV_PADS_0` initialiser inserts,
with every `u8` operation and every `unwrap` of the initialiser as a guard. -/
def padEntry (after ch : Nat) : Outcome String (Nat × Nat) :=
  -- `_ => unreachable!()`
  need "map:INV_PADS_0-unreachable" (padArm ch).isSome <|
  -- u8 subtraction `channel - k` / `k - channel`
  need "map:INV_PADS_0-row-sub"
    (if padArmKMinus ch then decide (ch ≤ padArmK ch) else decide (padArmK ch ≤ ch)) <|
  -- u8 multiplication / addition
  need "map:INV_PADS_0-offset-overflow" (decide (padOffset after ≤ 255)) <|
  need "map:INV_PADS_0-row-add" (decide (padRow0 after ch ≤ 255)) <|
  -- `col = 3 - col; row = 71 - row`
  need "map:INV_PADS_0-flip-sub"
    (decide (after ≤ padFlipAfter) ||
      (decide (padArmCol ch ≤ padFlipCol) && decide (padRow0 after ch ≤ padFlipRow))) <|
  -- `PwbPadColumn::try_from(..).unwrap()`, `PwbPadRow::try_from(..).unwrap()`
  need "map:INV_PADS_0-position-unwrap"
    (decide ((if after > padFlipAfter then padFlipCol - padArmCol ch else padArmCol ch) < pwbPadColumns) &&
     decide ((if after > padFlipAfter then padFlipRow - padRow0 after ch else padRow0 after ch) < pwbPadRows)) <|
  .ok (if after > padFlipAfter then (padFlipCol - padArmCol ch, padFlipRow - padRow0 after ch)
       else (padArmCol ch, padRow0 after ch))

/-- All keys the initialiser inserts, in order. -/
def padKeys : List (Nat × Nat) :=
  (List.range (padAfterMax + 1)).flatMap fun after =>
    (List.range (padChannelHi + 1 - padChannelLo)).map fun i => (after, padChannelLo + i)

/-- The lazy static's initialiser runs every entry: a panic in any of them (or in
`AfterId::try_from(after).unwrap()` / `PadChannelId::try_from(channel).unwrap()`: after ≤ 3,
1 ≤ channel ≤ 72) poisons the map. -/
def padInitOk : Bool :=
  decide (padAfterMax ≤ 3) && decide (1 ≤ padChannelLo) && decide (padChannelHi ≤ 72) &&
  padKeys.all (fun k => (padEntry k.1 k.2).isOk)

/-- `PwbPadPosition::try_new(_run, after_id, pad_channel_id)`: `INV_PADS_0.get(..).unwrap()`.
`chip` is the AFTER index 0..3 (`AfterId`), `ch` the pad channel 1..72 (`PadChannelId`). Keys are
distinct (`after`, `channel`) pairs, so no entry overwrites another. -/
def padInPwb (chip ch : Nat) : Outcome String (Nat × Nat) :=
  need "map:INV_PADS_0-init" padInitOk <|
  need "map:INV_PADS_0-get-unwrap"
    (decide (chip ≤ padAfterMax) && decide (padChannelLo ≤ ch) && decide (ch ≤ padChannelHi)) <|
  padEntry chip ch

/-- `TpcPadPosition::new(board_position, pad_position)` with its two `unwrap`s. -/
def padCombine (bp pp : Nat × Nat) : Outcome String (Nat × Nat) :=
  need "map:TpcPadColumn-unwrap" (decide (bp.1 * pwbPadColumns + pp.1 < tpcPadColumns)) <|
  need "map:TpcPadRow-unwrap" (decide (bp.2 * pwbPadRows + pp.2 < tpcPadRows)) <|
  .ok (bp.1 * pwbPadColumns + pp.1, bp.2 * pwbPadRows + pp.2)

/-- `TpcPadPosition::try_new` for a given board-position lookup `g`: `TpcPwbPosition::try_new(..)?`,
then `PwbPadPosition::try_new(..)?`, then `TpcPadPosition::new`. -/
def padCompose (g : Nat → Outcome String (Nat × Nat)) (board chip ch : Nat) :
    Outcome String (Nat × Nat) :=
  match g board with
  | .err e => .err e
  | .panic s => .panic s
  | .ok bp =>
    match padInPwb chip ch with
    | .err e => .err e
    | .panic s => .panic s
    | .ok pp => padCombine bp pp

/-- `TpcPadPosition::try_new(run_number, board_id, after_id, pad_channel_id)` → (column, row). -/
def padPosition (run board chip ch : Nat) : Outcome String (Nat × Nat) :=
  padCompose (pwbPosition run) board chip ch

/-! ### Wires and pad columns (physics/src/matching.rs), on `usize` -/

/-- `wire.wrapping_sub(WIRE_SHIFT) & 0xff` for a 64-bit `usize`. -/
def wrappingSubAnd (x k mask : Nat) : Nat := ((x + 2 ^ 64 - k) % 2 ^ 64) &&& mask

/-- `wire_to_pad_column(wire)`. -/
def wireToPadColumn (wire : Nat) : Nat :=
  wrappingSubAnd wire wireShift wireToColumnMask / wiresPerColumn

/-- `pad_column_to_wires(pad_column)` → `first..first + WIRES_PER_COLUMN` as (first, end). -/
def padColumnToWires (col : Nat) : Nat × Nat :=
  (((col * wiresPerColumn) + wireShift) &&& columnToWiresMask,
   (((col * wiresPerColumn) + wireShift) &&& columnToWiresMask) + wiresPerColumn)

/-- `shifted_index` of `TpcWirePosition::phi`. -/
def phiWireIndex (wire : Nat) : Nat := wrappingSubAnd wire phiWireShift phiWireMask

/-! ### Calibration dispatch -/

/-- The arm of calibration lookup `which` selected for a run number. -/
def calDispatch (which : String) (run : Nat) : Option (Nat × ArmRhs) :=
  match calArms.find? (fun c => c.1 == which) with
  | none => none
  | some c =>
    match dispatchIdx c.2.1 run, dispatch c.2.1 run with
    | some i, some r => some (i, r)
    | _, _ => none

end AlphaG.Maps
