import AlphaG.Model.Basic
/-
Model of `physics/src/deconvolution.rs` (`nn_greedy_deconvolution`, `ls_deconvolution`),
`deconvolution/pads.rs` (`pad_deconvolution`) and of the per-block part of
`deconvolution/wires.rs` (`y_matrix`, `wire_range_deconvolution`), written once over a carrier
`α` with the operations the Rust code uses and **no laws** (DESIGN 2.1). The driver instantiates
it with `Float`; the theorems of `Props/C17.lean` either use no law at all (`fast_eq_naive`,
`deconv_shape`) or state the laws they need.

Panic sites of the Rust code are guards: `response[offset..][..look_ahead]` (two slice guards),
`assert!(response_window.iter().all(|&x| x < 0.0))`, `.reduce(f64::min).unwrap()` (empty
window, i.e. `look_ahead = 0`, reached iff the loop body runs at least once).
-/
namespace AlphaG.Deconv

/-- The operations of `f64` used by the deconvolution (and matching) code. `sumInit` is the
start value of `Iterator::sum::<f64>()` (it is `-0.0` in the Rust version in use, which only
matters for the empty sum). `lt`/`le` are `<`/`<=` (both false on NaN). -/
structure Ops (α : Type) where
  zero : α
  inf : α
  sumInit : α
  add : α → α → α
  sub : α → α → α
  mul : α → α → α
  div : α → α → α
  min : α → α → α
  lt : α → α → Bool
  le : α → α → Bool

variable {α : Type} (o : Ops α)

/-- `x >= 0.0` -/
def Ops.nonneg (x : α) : Bool := o.le o.zero x
/-- `x < 0.0` -/
def Ops.isNeg (x : α) : Bool := o.lt x o.zero

/-- `&residual[i + offset..][..look_ahead]` (in bounds by the loop condition). -/
def window (res : List α) (i off la : Nat) : List α := (res.drop (i + off)).take la

/-- `&response[offset..][..look_ahead]` -/
def respWindow (resp : List α) (off la : Nat) : List α := (resp.drop off).take la

/-- `ss.iter_mut().zip(rs).for_each(|(s, r)| *s -= val * r)` (zipped to the shorter). -/
def subScaled (val : α) : List α → List α → List α
  | s :: ss, r :: rs => o.sub s (o.mul val r) :: subScaled val ss rs
  | [], _ => []
  | ss, [] => ss

/-- `residual[i..].iter_mut().zip(response).for_each(|(s, r)| *s -= val * r)` -/
def applyAt (res resp : List α) (i : Nat) (val : α) : List α :=
  res.take i ++ subScaled o val (res.drop i) resp

/-- `window.zip(response_window).map(|(s, r)| s / r).reduce(f64::min)`; `zero` stands for the
`unwrap()` of `None`, which is guarded in `nnGreedy` (`look_ahead = 0`). -/
def stepVal (w rw : List α) : α :=
  match List.zipWith o.div w rw with
  | [] => o.zero
  | x :: xs => xs.foldl o.min x

/-- `.iter().enumerate().rev().find(|(_, x)| **x >= 0.0).map(|(i, _)| i)`: index of the last
non-negative element. -/
def lastNonneg (w : List α) : Option Nat :=
  match w.reverse.findIdx? o.nonneg with
  | some k => some (w.length - 1 - k)
  | none => none

theorem subScaled_length (val : α) (ss rs : List α) :
    (subScaled o val ss rs).length = ss.length := by
  induction ss generalizing rs with
  | nil => cases rs <;> simp [subScaled]
  | cons s ss ih => cases rs <;> simp [subScaled, ih]

theorem applyAt_length (res resp : List α) (i : Nat) (v : α) :
    (applyAt o res resp i v).length = res.length := by
  simp only [applyAt, List.length_append, subScaled_length, List.length_take, List.length_drop]
  omega

/-- The plain definition: slide the window one sample at a time. -/
def naive (resp : List α) (off la : Nat) (i : Nat) (res inp : List α) : List α × List α :=
  if _h : i + off + la ≤ res.length then
    if (window res i off la).any o.nonneg then naive resp off la (i + 1) res inp
    else
      naive resp off la (i + 1)
        (applyAt o res resp i (stepVal o (window res i off la) (respWindow resp off la)))
        (inp.set i (stepVal o (window res i off la) (respWindow resp off la)))
  else (res, inp)
termination_by res.length + 1 - i
decreasing_by all_goals (first | omega | (simp only [applyAt_length]; omega))

/-- The production loop: `i += last_positive + 1` when the window holds a non-negative sample. -/
def fast (resp : List α) (off la : Nat) (i : Nat) (res inp : List α) : List α × List α :=
  if _h : i + off + la ≤ res.length then
    match lastNonneg o (window res i off la) with
    | some k => fast resp off la (i + k + 1) res inp
    | none =>
      fast resp off la (i + 1)
        (applyAt o res resp i (stepVal o (window res i off la) (respWindow resp off la)))
        (inp.set i (stepVal o (window res i off la) (respWindow resp off la)))
  else (res, inp)
termination_by res.length + 1 - i
decreasing_by all_goals (first | omega | (simp only [applyAt_length]; omega))

/-- `residual.iter().map(|x| x.powi(2)).sum()` (`powi(2)` is one multiplication `x * x`). -/
def sumSq (res : List α) : α := res.foldl (fun acc x => o.add acc (o.mul x x)) o.sumInit

/-- Final state of either loop started as the Rust code does: `residual = signal.to_vec()`,
`input = vec![0.0; signal.len()]`, `i = 0`. -/
def loopResult (useFast : Bool) (signal resp : List α) (off la : Nat) : List α × List α :=
  if useFast then fast o resp off la 0 signal (List.replicate signal.length o.zero)
  else naive o resp off la 0 signal (List.replicate signal.length o.zero)

/-- `nn_greedy_deconvolution` with its panic guards; the value is
`(residual vector, sum of squared residuals, input)`. The Rust function returns the last two;
the residual vector is kept for the correspondence check. -/
def nnGreedy (useFast : Bool) (signal resp : List α) (off la : Nat) :
    Outcome Unit (List α × α × List α) :=
  if resp.length < off then .panic "deconv:response[offset..]" else
  if resp.length - off < la then .panic "deconv:[..look_ahead]" else
  if ¬ (respWindow resp off la).all o.isNeg then .panic "deconv:assert-response-negative" else
  if la = 0 ∧ off ≤ signal.length then .panic "deconv:reduce-unwrap" else
  .ok ((loopResult o useFast signal resp off la).1,
       sumSq o (loopResult o useFast signal resp off la).1,
       (loopResult o useFast signal resp off la).2)

def nnGreedyFast (signal resp : List α) (off la : Nat) : Outcome Unit (List α × α × List α) :=
  nnGreedy o true signal resp off la

def nnGreedyNaive (signal resp : List α) (off la : Nat) : Outcome Unit (List α × α × List α) :=
  nnGreedy o false signal resp off la

/-- `offsets × look_aheads` in the order of the two nested `for` loops
(`RangeInclusive`: empty when `lo > hi`). -/
def grid (offLo offHi laLo laHi : Nat) : List (Nat × Nat) :=
  (List.range' offLo (offHi + 1 - offLo)).flatMap fun off =>
    (List.range' laLo (laHi + 1 - laLo)).map fun la => (off, la)

/-- The body of `ls_deconvolution`: a *strictly* smaller residual replaces the best so far. -/
def lsLoop (useFast : Bool) (signal resp : List α) :
    List (Nat × Nat) → α → List α → Outcome Unit (List α)
  | [], _, best => .ok best
  | (off, la) :: rest, bestR, best =>
    match nnGreedy o useFast signal resp off la with
    | .ok (_, r, inp) =>
      if o.lt r bestR then lsLoop useFast signal resp rest r inp
      else lsLoop useFast signal resp rest bestR best
    | .err e => .err e
    | .panic s => .panic s

/-- `ls_deconvolution(signal, response, offLo..=offHi, laLo..=laHi)`: initial best residual
`+∞`, initial best input the empty vector. -/
def lsDeconvWith (useFast : Bool) (signal resp : List α) (offLo offHi laLo laHi : Nat) :
    Outcome Unit (List α) :=
  lsLoop o useFast signal resp (grid offLo offHi laLo laHi) o.inf []

def lsDeconv (signal resp : List α) (offLo offHi laLo laHi : Nat) : Outcome Unit (List α) :=
  lsDeconvWith o true signal resp offLo offHi laLo laHi

/-- `pad_deconvolution`: offsets `3..=5`, look-aheads `7..=12` over `PAD_RESPONSE`. -/
def padDeconv (padResp signal : List α) : Outcome Unit (List α) :=
  lsDeconv o signal padResp 3 5 7 12

/-- The wire settings of `wire_range_deconvolution`: offsets `0..=1`, look-aheads `3..=12`. -/
def wireDeconv (wireResp signal : List α) : Outcome Unit (List α) :=
  lsDeconv o signal wireResp 0 1 3 12

/-! ### One contiguous block of wires -/

/-- `problem_dimensions(..).0`: the longest signal of the block (`.max().unwrap()`: `0` stands
for the `unwrap` of an empty block, guarded in `wireSignalsDeconv`). -/
def maxLen : List (List α) → Nat
  | [] => 0
  | s :: ss => Nat.max s.length (maxLen ss)

/-- `y_matrix`: entry `(row, column)` is sample `row` of channel `column`, `0.0` beyond the end
of a short channel (`.get(i).copied().unwrap_or(0.0)`), as a function of `(row, column)`. -/
def yMatrix (signals : List (List α)) (row column : Nat) : α :=
  ((signals.getD column []).getD row o.zero)

/-- Sequence all outcomes (first non-`ok` wins). -/
def sequence {ε β : Type} : List (Outcome ε β) → Outcome ε (List β)
  | [] => .ok []
  | .ok a :: rest =>
    match sequence rest with
    | .ok as => .ok (a :: as)
    | .err e => .err e
    | .panic s => .panic s
  | .err e :: _ => .err e
  | .panic s :: _ => .panic s

/-- The part of `wire_range_deconvolution` that depends on the block's *signals* only, in ring
order: `Y` (zero padded) → `cholSolve` (stands for `faer`'s in-place `Y·A⁻¹`, a parameter: a
map on `i × j` matrices given as functions of `(row, column)`) → one `ls_deconvolution` per
column over rows `0..i`. -/
def wireSignalsDeconv (cholSolve : Nat → Nat → (Nat → Nat → α) → (Nat → Nat → α))
    (wireResp : List α) (signals : List (List α)) : Outcome Unit (List (List α)) :=
  if signals.isEmpty then .panic "wires:max-unwrap" else
  sequence ((List.range signals.length).map fun column =>
    wireDeconv o wireResp ((List.range (maxLen signals)).map fun row =>
      cholSolve (maxLen signals) signals.length (yMatrix o signals) row column))

/-- `range_to_indices(range).zip(sol)` -/
def wireRangeDeconv (cholSolve : Nat → Nat → (Nat → Nat → α) → (Nat → Nat → α))
    (wireResp : List α) (block : List (Nat × List α)) : Outcome Unit (List (Nat × List α)) :=
  match wireSignalsDeconv o cholSolve wireResp (block.map Prod.snd) with
  | .ok sol => .ok ((block.map Prod.fst).zip sol)
  | .err e => .err e
  | .panic s => .panic s

/-- The IEEE-754 double instance used by the driver. `min` is Rust's `f64::min` (`minnum`: a
NaN operand is ignored). -/
def floatOps : Ops Float where
  zero := 0.0
  inf := 1.0 / 0.0
  sumInit := -0.0
  add := (· + ·)
  sub := (· - ·)
  mul := (· * ·)
  div := (· / ·)
  min := fun a b => if a.isNaN then b else if b < a then b else a
  lt := fun a b => a < b
  le := fun a b => a ≤ b

end AlphaG.Deconv
