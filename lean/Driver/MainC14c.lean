import Driver.Loop
import AlphaG.Driver.C14c
def main : IO Unit := Driver.run [AlphaG.Driver.C14c.handle]
