import Driver.Loop
import AlphaG.Driver.C13
def main : IO Unit := Driver.run [AlphaG.Driver.C13.handle]
