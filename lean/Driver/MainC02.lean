import Driver.Loop
import AlphaG.Driver.C02
def main : IO Unit := Driver.run [AlphaG.Driver.C02.handle]
