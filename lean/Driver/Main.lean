import AlphaG.Driver.Trg
/-
Line protocol driver: one request per input line, one canonical answer per output line.
Handlers live in `AlphaG/Driver/*.lean`; each returns `none` for commands it does not own.
-/
open AlphaG

def handlers : List (String → List String → Option String) :=
  [ AlphaG.Driver.Trg.handle ]

def answer (line : String) : String :=
  match line.trimAscii.toString.splitOn " " with
  | [] => "bad-request"
  | cmd :: args =>
    match handlers.findSome? (fun h => h cmd args) with
    | some out => out
    | none => "bad-request"

partial def loop (hin : IO.FS.Stream) (hout : IO.FS.Stream) : IO Unit := do
  let line ← hin.getLine
  if line.isEmpty then return ()
  hout.putStrLn (answer line)
  loop hin hout

def main : IO Unit := do
  let hin ← IO.getStdin
  let hout ← IO.getStdout
  loop hin hout
  hout.flush
