import Driver.Loop
import AlphaG.Driver.C02
import AlphaG.Driver.C03
import AlphaG.Driver.C04
import AlphaG.Driver.C05
import AlphaG.Driver.C06
import AlphaG.Driver.C07
import AlphaG.Driver.C08
import AlphaG.Driver.C09b
import AlphaG.Driver.C10
import AlphaG.Driver.C13
import AlphaG.Driver.C13b
import AlphaG.Driver.C14b
import AlphaG.Driver.C14c
import AlphaG.Driver.C15
import AlphaG.Driver.C15b
import AlphaG.Driver.C16
import AlphaG.Driver.C17
import AlphaG.Driver.C18
import AlphaG.Driver.C19
/-
Full model driver: every handler of `AlphaG/Driver/*.lean`. Handlers return `none` for
commands they do not own.
-/
def main : IO Unit := Driver.run [
  AlphaG.Driver.C02.handle,
  AlphaG.Driver.C03.handle,
  AlphaG.Driver.C04.handle,
  AlphaG.Driver.C05.handle,
  AlphaG.Driver.C06.handle,
  AlphaG.Driver.C07.handle,
  AlphaG.Driver.C08.handle,
  AlphaG.Driver.C09b.handle,
  AlphaG.Driver.C10.handle,
  AlphaG.Driver.C13.handle,
  AlphaG.Driver.C13b.handle,
  AlphaG.Driver.C14b.handle,
  AlphaG.Driver.C14c.handle,
  AlphaG.Driver.C15.handle,
  AlphaG.Driver.C15b.handle,
  AlphaG.Driver.C16.handle,
  AlphaG.Driver.C17.handle,
  AlphaG.Driver.C18.handle,
  AlphaG.Driver.C19.handle
]
