import Driver.Loop
import AlphaG.Driver.C18
def main : IO Unit := Driver.run [AlphaG.Driver.C18.handle]
