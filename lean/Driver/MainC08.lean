import Driver.Loop
import AlphaG.Driver.C08
def main : IO Unit := Driver.run [AlphaG.Driver.C08.handle]
