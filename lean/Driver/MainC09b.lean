import Driver.Loop
import AlphaG.Driver.C09b
def main : IO Unit := Driver.run [AlphaG.Driver.C09b.handle]
