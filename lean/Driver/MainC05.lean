import Driver.Loop
import AlphaG.Driver.C05
def main : IO Unit := Driver.run [AlphaG.Driver.C05.handle]
