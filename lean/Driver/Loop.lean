/-
Line protocol loop shared by the full driver and the per-property test drivers:
one request per input line, one canonical answer per output line.
-/
namespace Driver

abbrev Handler := String → List String → Option String

def answer (handlers : List Handler) (line : String) : String :=
  match line.trimAscii.toString.splitOn " " with
  | [] => "bad-request"
  | cmd :: args =>
    match handlers.findSome? (fun h => h cmd args) with
    | some out => out
    | none => "bad-request"

partial def loop (handlers : List Handler) (hin hout : IO.FS.Stream) : IO Unit := do
  let line ← hin.getLine
  if line.isEmpty then return ()
  hout.putStrLn (answer handlers line)
  loop handlers hin hout

def run (handlers : List Handler) : IO Unit := do
  let hin ← IO.getStdin
  let hout ← IO.getStdout
  loop handlers hin hout
  hout.flush

end Driver
