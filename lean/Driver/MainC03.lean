import Driver.Loop
import AlphaG.Driver.C03
def main : IO Unit := Driver.run [AlphaG.Driver.C03.handle]
