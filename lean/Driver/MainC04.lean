import Driver.Loop
import AlphaG.Driver.C04
import AlphaG.Driver.C05
def main : IO Unit := Driver.run [AlphaG.Driver.C04.handle, AlphaG.Driver.C05.handle]
