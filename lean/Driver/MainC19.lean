import Driver.Loop
import AlphaG.Driver.C19
def main : IO Unit := Driver.run [AlphaG.Driver.C19.handle]
