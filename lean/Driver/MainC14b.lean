import Driver.Loop
import AlphaG.Driver.C14b
def main : IO Unit := Driver.run [AlphaG.Driver.C14b.handle]
