import Driver.Loop
import AlphaG.Driver.C07
def main : IO Unit := Driver.run [AlphaG.Driver.C07.handle]
