import Driver.Loop
import AlphaG.Driver.C17
def main : IO Unit := Driver.run [AlphaG.Driver.C17.handle]
