import Driver.Loop
import AlphaG.Driver.C16
def main : IO Unit := Driver.run [AlphaG.Driver.C16.handle]
