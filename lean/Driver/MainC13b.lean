import Driver.Loop
import AlphaG.Driver.C13b
def main : IO Unit := Driver.run [AlphaG.Driver.C13b.handle]
