import Driver.Loop
import AlphaG.Driver.C15
def main : IO Unit := Driver.run [AlphaG.Driver.C15.handle]
