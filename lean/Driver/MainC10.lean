import Driver.Loop
import AlphaG.Driver.C10
def main : IO Unit := Driver.run [AlphaG.Driver.C10.handle]
