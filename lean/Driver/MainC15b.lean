import Driver.Loop
import AlphaG.Driver.C15b
def main : IO Unit := Driver.run [AlphaG.Driver.C15b.handle]
