import AlphaG.Model.Basic
import AlphaG.Model.Trg
