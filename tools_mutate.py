#!/usr/bin/env python3
"""
Systematic mutation sweep (machinery self-test, complements the hand-made seeds of /verif/seeded):
enumerate small syntactic mutants of the source files the models follow, keep those the existing
unit tests do not kill, and run the relevant checks against each (seed-evaluation mode, /repo
untouched).  A mutant that survives both the tests and the checks is a candidate blind spot (or an
equivalent / out-of-scope mutant) to be looked at by hand.

  tools_mutate.py list  <file> [--max N] [--seed S]      enumerate mutants (json lines to stdout)
  tools_mutate.py run   <plan.json> <outdir>             run a plan: [{"file":…, "checks":[…], "max":N}, …]

Mutation operators: comparison boundary (< <= > >=), equality flip (== !=), logical (&& ||), integer
literal ±1, arithmetic (+ -), hex mask bit drop, `..=`/`..` range end, removal of a `!`.
Test code, verification hooks (cfg alpha_g_verif), comments, doc comments and string literals are
never mutated.
"""
import json, os, random, re, subprocess, sys, time, zlib

REPO = "/repo"
WT = "/tmp/mut-wt"
TGT = "/tmp/mut-target"
CRATE = {"detector": "alpha_g_detector", "physics": "alpha_g_physics", "analysis": "alpha-g-analysis"}

OPS = [
    ("cmp", re.compile(r"(?<![<>=!\-])<=(?![=>])"), "<"),
    ("cmp", re.compile(r"(?<![<>=!\-])>=(?![=>])"), ">"),
    ("cmp", re.compile(r"(?<![<>=!\-:&'])\s<\s(?![=<])"), " <= "),
    ("cmp", re.compile(r"(?<![<>=!\-])\s>\s(?![=>])"), " >= "),
    ("eq", re.compile(r"(?<![<>=!])==(?!=)"), "!="),
    ("eq", re.compile(r"!=(?!=)"), "=="),
    ("logic", re.compile(r"&&"), "||"),
    ("logic", re.compile(r"\|\|"), "&&"),
    ("arith", re.compile(r"(?<=[\w)\]])\s\+\s(?=[\w(])"), " - "),
    ("arith", re.compile(r"(?<=[\w)\]])\s-\s(?=[\w(])"), " + "),
    ("range", re.compile(r"\.\.=(?=[\w(])"), ".."),
    ("not", re.compile(r"(?<![\w!=])!(?=[a-z_(])"), ""),
]
# method / function word swaps (kind "word")
WORDS = [("saturating_sub", "wrapping_sub"), ("wrapping_sub", "saturating_sub"), (".min(", ".max("), (".max(", ".min("),
         (".first()", ".last()"), (".last()", ".first()"), (".floor()", ".ceil()"), (".floor()", ".round()"),
         (".round()", ".floor()"), (".is_some()", ".is_none()"), (".is_none()", ".is_some()"), (".any(", ".all("),
         (".all(", ".any("), ("min_by", "max_by"), ("max_by", "min_by"), (".abs()", ""), (".sin()", ".cos()"),
         (".cos()", ".sin()"), (".rev()", ""), ("sin_cos()", "sin_cos().1.sin_cos()"), (".is_empty()", ".len() == 1"),
         ("from_le_bytes", "from_be_bytes"), (".skip(", ".skip(1 + "), (".take(", ".take(1 + "), ("..=", ".."),
         ("position(", "rposition("), (".pop()", ".first().copied()"), ("swap_remove", "remove"), ("is_negative()", "is_positive()"),
         ("hypot", "max"), ("atan2", "hypot")]

INT = re.compile(r"(?<![\w.\"'])(\d+)(?![\w.\"']|\.\d)")
HEX = re.compile(r"(?<![\w.])0x([0-9a-fA-F_]+)\b")


def code_lines(path):
    """Indices of lines that may be mutated."""
    lines = open(path).read().split("\n")
    ok = []
    in_tests = False
    skip_item = 0          # 1: waiting for the start of the item a cfg(alpha_g_verif) attribute applies to; 2: inside it
    depth = 0
    block_comment = 0
    for i, l in enumerate(lines):
        s = l.strip()
        if re.match(r"#\[cfg\(test\)\]", s):
            in_tests = True
        if in_tests:
            continue
        if "cfg(alpha_g_verif)" in s:
            skip_item, depth = 1, 0
            continue
        if skip_item:
            if s.startswith("//") or s.startswith("#[") or not s:
                continue
            code = s.split("//")[0]
            depth += code.count("{") + code.count("(") - code.count("}") - code.count(")")
            skip_item = 2
            if depth <= 0 and (code.rstrip().endswith(";") or code.rstrip().endswith("}")):
                skip_item = 0
            continue
        if "/*" in s:
            block_comment += 1
        if block_comment:
            if "*/" in s:
                block_comment -= 1
            continue
        if s.startswith("//") or s.startswith("#[") or s.startswith("use ") or not s:
            continue
        ok.append(i)
    return lines, ok


def strip_tail_comment(l):
    # position where a trailing // comment starts (outside strings), or len(l)
    in_str = False
    i = 0
    while i < len(l) - 1:
        c = l[i]
        if c == "\\" and in_str:
            i += 2
            continue
        if c == '"':
            in_str = not in_str
        elif not in_str and l[i:i + 2] == "//":
            return i
        i += 1
    return len(l)


def in_string(l, pos):
    return l[:pos].count('"') % 2 == 1


def mutants_of(path):
    lines, ok = code_lines(path)
    out = []
    for i in ok:
        l = lines[i]
        end = strip_tail_comment(l)
        for kind, rx, rep in OPS:
            for m in rx.finditer(l):
                if m.start() >= end or in_string(l, m.start()):
                    continue
                # skip generics / lifetimes / arrows for < >
                if kind == "cmp" and re.search(r"(Vec|Option|Result|HashMap|impl|fn|<'|::<|->|=>|struct|enum|type |Box|&'|dyn|where)", l) and ("<" in m.group(0) or ">" in m.group(0)) and "=" not in m.group(0):
                    continue
                new = l[:m.start()] + rep + l[m.end():]
                out.append({"line": i + 1, "kind": kind, "old": l.strip(), "new": new.strip(), "text": new})
        for a, b in WORDS:
            start = 0
            while True:
                k = l.find(a, start)
                if k < 0 or k >= end:
                    break
                start = k + len(a)
                if in_string(l, k):
                    continue
                new = l[:k] + b + l[k + len(a):]
                out.append({"line": i + 1, "kind": "word", "old": l.strip(), "new": new.strip(), "text": new})
        table_row = len(INT.findall(l[:end])) >= 5     # rows of constant tables: at most one literal each
        for k, m in enumerate(INT.finditer(l)):
            if m.start() >= end or in_string(l, m.start()):
                continue
            if table_row and k != (i % 5):
                continue
            v = int(m.group(1))
            if v > 100000:
                continue
            for nv in ({v + 1, v - 1} if v > 0 else {1}):
                new = l[:m.start()] + str(nv) + l[m.end():]
                out.append({"line": i + 1, "kind": "int", "old": l.strip(), "new": new.strip(), "text": new})
        for m in HEX.finditer(l):
            if m.start() >= end or in_string(l, m.start()):
                continue
            v = int(m.group(1).replace("_", ""), 16)
            if v == 0:
                continue
            hb = 1 << (v.bit_length() - 1)
            lb = v & -v
            for nv in {v ^ hb, v ^ lb, v | (hb << 1)} - {v}:
                new = l[:m.start()] + hex(nv) + l[m.end():]
                out.append({"line": i + 1, "kind": "mask", "old": l.strip(), "new": new.strip(), "text": new})
    return lines, out


def sh(cmd, cwd=None, timeout=3600, env=None):
    p = subprocess.run(cmd, shell=True, cwd=cwd, stdout=subprocess.PIPE, stderr=subprocess.STDOUT, text=True, timeout=timeout, env=env)
    return p.returncode, p.stdout


def run_plan(plan_path, outdir):
    plan = json.load(open(plan_path))
    os.makedirs(outdir, exist_ok=True)
    if not os.path.isdir(WT):
        sh(f"git -C {REPO} worktree add --detach {WT} HEAD")
    env = dict(os.environ, CARGO_TARGET_DIR=TGT, CARGO_NET_OFFLINE="true")
    log = open(os.path.join(outdir, "results.jsonl"), "a")
    done = set()
    rp = os.path.join(outdir, "results.jsonl")
    for l in open(rp):
        try:
            done.add(json.loads(l)["id"])
        except Exception:
            pass
    for item in plan:
        rel = item["file"]
        crate_dir = rel.split("/")[0]
        pkg = CRATE[crate_dir]
        lines, muts = mutants_of(os.path.join(REPO, rel))
        rnd = random.Random(item.get("seed", 1))
        rnd.shuffle(muts)
        # at most one mutant per (line, kind) to spread the sample
        seen, sample = set(), []
        for m in muts:
            k = (m["line"], m["kind"])
            if k in seen:
                continue
            seen.add(k)
            sample.append(m)
            if len(sample) >= item.get("max", 10):
                break
        for m in sample:
            mid = f"{rel}:{m['line']}:{m['kind']}:{zlib.crc32(m['new'].encode()) % 100000}"
            mid = re.sub(r"[^\w:.\-/]", "_", mid)
            if mid in done:
                continue
            t0 = time.time()
            sh("git checkout -q -- .", cwd=WT)
            src = open(os.path.join(WT, rel)).read().split("\n")
            if src[m["line"] - 1].strip() != m["old"]:
                continue
            src[m["line"] - 1] = m["text"]
            open(os.path.join(WT, rel), "w").write("\n".join(src))
            rec = {"id": mid, "file": rel, "line": m["line"], "kind": m["kind"], "old": m["old"], "new": m["new"]}
            test_cmd = (f"cargo test -p {pkg} --offline --lib" if crate_dir != "analysis"
                        else "cargo build -p alpha-g-analysis --offline")
            try:
                rc, out = sh(test_cmd, cwd=WT, env=env, timeout=900)
            except subprocess.TimeoutExpired:
                sh("pkill -f /tmp/mut-target/debug/deps || true")
                rc, out = 1, "test result: FAILED (timeout: the mutant does not terminate)"
            if rc != 0:
                rec["status"] = "killed-by-tests" if "test result: FAILED" in out or "panicked" in out else "does-not-compile"
            else:
                rec["status"] = "survives-tests"
                _, diff = sh("git diff", cwd=WT)
                dpath = os.path.join(outdir, mid.replace("/", "_").replace(":", "_") + ".diff")
                open(dpath, "w").write(diff)
                rec["diff"] = dpath
                rec["checks"] = {}
                for c in item["checks"]:
                    try:
                        rc2, out2 = sh(f"VERIF_REPO={WT} /verif/check {c} --tier quick", cwd="/verif", timeout=5400)
                    except subprocess.TimeoutExpired:
                        sh("pkill -f target_alt/ || true")
                        rc2, out2 = 1, "VIOLATION (the check did not come back: timeout) no-failing-input-found"
                    v = [x for x in out2.splitlines() if x.startswith("VIOLATION")]
                    rec["checks"][c] = {"violation": bool(v), "nfi": any("no-failing-input-found" in x for x in v),
                                        "first": [x[:200] for x in out2.splitlines() if "problem [" in x][:2]}
                    if v:
                        break   # caught: the other checks need not run
                rec["caught"] = any(r["violation"] for r in rec["checks"].values())
            rec["wall_s"] = round(time.time() - t0, 1)
            log.write(json.dumps(rec) + "\n")
            log.flush()
            print(mid, rec["status"], "caught" if rec.get("caught") else ("MISSED" if rec["status"] == "survives-tests" else ""), flush=True)
    sh("git checkout -q -- .", cwd=WT)
    # restore generated tables / dump of /repo
    sh("flock /verif/.cache/check.lock sh -c '/verif/.cache/target_check/debug/corr dump-tables --out /verif/.cache/tables.json >/dev/null 2>&1; python3 /verif/translator/extract.py >/dev/null'")


if __name__ == "__main__":
    if sys.argv[1] == "list":
        _, muts = mutants_of(os.path.join(REPO, sys.argv[2]))
        for m in muts:
            print(json.dumps({k: m[k] for k in ("line", "kind", "old", "new")}))
        print(len(muts), "mutants", file=sys.stderr)
    elif sys.argv[1] == "run":
        run_plan(sys.argv[2], sys.argv[3])
