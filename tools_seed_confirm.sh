#!/bin/bash
# Confirm a seeded change whose demonstration is an integration test of a crate:
#   ./tools_seed_confirm.sh <patch.diff> <demo.rs> <crate dir: detector|physics|analysis> <cargo package>
# Prints: demo on HEAD (expect pass), demo with change (expect FAIL), existing tests with change (expect pass).
set -u
patch="$1"; demo="$2"; cdir="$3"; pkg="$4"
wt=/tmp/confirm-wt-$$
export CARGO_TARGET_DIR=/tmp/confirm-target
export CARGO_NET_OFFLINE=true
git -C /repo worktree add -q --detach "$wt" HEAD || exit 2
mkdir -p "$wt/$cdir/tests" && cp "$demo" "$wt/$cdir/tests/seed_demo.rs"
( cd "$wt" && cargo test -p "$pkg" --offline --test seed_demo >/tmp/confirm-1.log 2>&1 ); echo "demo on HEAD: rc=$? (expect 0)"
( cd "$wt" && git apply "$patch" ) || echo "PATCH DOES NOT APPLY"
( cd "$wt" && cargo test -p "$pkg" --offline --test seed_demo >/tmp/confirm-2.log 2>&1 ); echo "demo with change: rc=$? (expect non-zero)"
rm -rf "$wt/$cdir/tests/seed_demo.rs"; rmdir "$wt/$cdir/tests" 2>/dev/null
( cd "$wt" && cargo test --workspace --offline >/tmp/confirm-3.log 2>&1 ); echo "existing tests with change: rc=$? (expect 0)"; grep -E "^test result" /tmp/confirm-3.log | awk '{p+=$4; f+=$6} END {print "passed="p" failed="f}'
git -C /repo worktree remove --force "$wt"
