#!/bin/bash
# Commit /verif with the generated tables guaranteed to be those of /repo (a seed evaluation or the
# mutation sweep may have left the tables of a scratch worktree in lean/AlphaG/Generated).
msg="$1"
exec flock /verif/.cache/check.lock sh -c 'cd /verif && .cache/target_check/debug/corr dump-tables --out .cache/tables.json >/dev/null 2>&1; python3 translator/extract.py >/dev/null && git add -A && git commit -qm "$1" && git log --oneline | head -1' sh "$msg"
